package main

// Adapter for spec/Attach.tla (C15, C16, C19, C10 attachment side): the real attachment
// connection loop is run on an in-memory net.Conn whose Read returns exactly the scripted
// segments; the FileEventer callback and the bytes written are projected to Attach!Obs.

import (
	"bytes"
	"errors"
	"fmt"
	"io"
	"math/rand"
	"net"
	"os"
	"time"

	"encoding/binary"

	"github.com/cuteLittleDevil/go-jt808/attachment"
	"github.com/cuteLittleDevil/go-jt808/protocol/jt808"
	"github.com/cuteLittleDevil/go-jt808/protocol/model"
	"github.com/cuteLittleDevil/go-jt808/shared/consts"
)

type AObs struct {
	Kind     string `json:"kind"`
	Stage    string `json:"stage"`
	Reply    B      `json:"reply"`
	Name     B      `json:"name"`
	Complete bool   `json:"complete"`
	Content  B      `json:"content"`
	// implementation-side extras (not in the spec's Obs)
	Cur   int `json:"cur,omitempty"`
	Size  int `json:"size,omitempty"`
	AtSeg int `json:"seg,omitempty"`
}

type AUnit struct {
	Bytes B      `json:"bytes"`
	What  string `json:"what"`
	Obs   []AObs `json:"obs"`
}

type AScript struct {
	Dialect string  `json:"dialect"`
	Units   []AUnit `json:"units"`
}

func dialectOf(s string) consts.ActiveSafetyType {
	switch s {
	case "HLJ":
		return consts.ActiveSafetyHLJ
	case "GD":
		return consts.ActiveSafetyGD
	case "HN":
		return consts.ActiveSafetyHN
	case "SC":
		return consts.ActiveSafetySC
	}
	return consts.ActiveSafetyJS
}

// scriptConn: Read hands out the planned segments one by one, then EOF (or a reset error).
type scriptConn struct {
	segs    [][]byte
	i       int
	written [][]byte
	endErr  error
	onRead  func(i int)
}

func (c *scriptConn) Read(p []byte) (int, error) {
	if c.onRead != nil {
		c.onRead(c.i)
	}
	if c.i >= len(c.segs) {
		if c.endErr != nil {
			return 0, c.endErr
		}
		return 0, io.EOF
	}
	s := c.segs[c.i]
	n := copy(p, s)
	if n < len(s) {
		c.segs[c.i] = s[n:]
	} else {
		c.i++
	}
	return n, nil
}
func (c *scriptConn) Write(p []byte) (int, error) {
	c.written = append(c.written, append([]byte{}, p...))
	return len(p), nil
}
func (c *scriptConn) Close() error                       { return nil }
func (c *scriptConn) LocalAddr() net.Addr                { return &net.TCPAddr{} }
func (c *scriptConn) RemoteAddr() net.Addr               { return &net.TCPAddr{} }
func (c *scriptConn) SetDeadline(t time.Time) error      { return nil }
func (c *scriptConn) SetReadDeadline(t time.Time) error  { return nil }
func (c *scriptConn) SetWriteDeadline(t time.Time) error { return nil }

type recEventer struct {
	conn *scriptConn
	obs  []AObs
	quit string
	nw   int // writes already attributed
}

func (r *recEventer) OnEvent(p *attachment.PackageProgress) {
	o := AObs{Reply: B{}, Name: B{}, Content: B{}, AtSeg: r.conn.i}
	switch p.ProgressStage {
	case attachment.ProgressStageInit:
		o.Kind, o.Stage = "control", "Init"
	case attachment.ProgressStageStart:
		o.Kind, o.Stage = "control", "Start"
	case attachment.ProgressStageComplete:
		o.Kind, o.Stage = "control", "Complete"
	case attachment.ProgressStageSupplementary:
		o.Kind, o.Stage = "control", "Supplementary"
	case attachment.ProgressStageStreamData:
		o.Kind, o.Stage = "chunk", "StreamData"
	case attachment.ProgressStageStreamDataComplete:
		o.Kind, o.Stage, o.Complete = "chunk", "StreamDataComplete", true
	case attachment.ProgressStageSuccessQuit:
		r.quit = "SuccessQuit"
		return
	case attachment.ProgressStageFailQuit:
		r.quit = "FailQuit"
		if p.ExtensionFields.Err != nil {
			r.quit += ": " + p.ExtensionFields.Err.Error()
		}
		return
	}
	if o.Kind == "control" {
		// the reply is what was actually written for this unit
		if len(r.conn.written) > r.nw {
			o.Reply = r.conn.written[len(r.conn.written)-1]
			if len(r.conn.written)-r.nw != 1 {
				o.Stage += fmt.Sprintf("(+%d writes)", len(r.conn.written)-r.nw)
			}
			r.nw = len(r.conn.written)
		}
		if !bytes.Equal(o.Reply, p.ExtensionFields.RecentPlatformData) {
			o.Stage += "(callback data differs from bytes written)"
		}
	} else if cp := p.ExtensionFields.CurrentPackage; cp != nil {
		o.Name = B(cp.FileName)
		o.Cur, o.Size = int(cp.CurrentSize), int(cp.FileSize)
		if o.Complete {
			o.Content = append(B{}, cp.StreamBody...)
		}
	}
	r.obs = append(r.obs, o)
}

type aRun struct {
	Obs   []AObs `json:"obs"`
	Quit  string `json:"quit"`
	Panic string `json:"panic,omitempty"`
	Extra int    `json:"extra_writes,omitempty"`
}

func runAttach(dialect string, segs [][]byte, endErr error) aRun {
	conn := &scriptConn{segs: segs, endErr: endErr}
	rec := &recEventer{conn: conn}
	pn := protect(func() { attachment.VerifServe(conn, dialectOf(dialect), rec) })
	return aRun{Obs: rec.obs, Quit: rec.quit, Panic: pn, Extra: len(conn.written) - rec.nw}
}

// segmentations of a unit list
func segment(units []AUnit, mode string, r *rand.Rand) [][]byte {
	var all []byte
	var segs [][]byte
	for _, u := range units {
		all = append(all, u.Bytes...)
	}
	switch mode {
	case "unit":
		for _, u := range units {
			segs = append(segs, append([]byte{}, u.Bytes...))
		}
	case "all":
		segs = [][]byte{all}
	case "byte":
		for _, b := range all {
			segs = append(segs, []byte{b})
		}
	case "pair": // units coalesced two by two
		for i := 0; i < len(units); i += 2 {
			s := append([]byte{}, units[i].Bytes...)
			if i+1 < len(units) {
				s = append(s, units[i+1].Bytes...)
			}
			segs = append(segs, s)
		}
	case "head": // every unit is cut once inside its first 70 bytes (frame header / chunk header fields), at a different place each
		for i, u := range units {
			k := 1 + (i*7+r.Intn(70))%70
			if k >= len(u.Bytes) {
				segs = append(segs, append([]byte{}, u.Bytes...))
				continue
			}
			segs = append(segs, append([]byte{}, u.Bytes[:k]...), append([]byte{}, u.Bytes[k:]...))
		}
	default: // random cuts
		for len(all) > 0 {
			n := 1 + r.Intn(len(all))
			if r.Intn(2) == 0 && n > 40 {
				n = 1 + r.Intn(40)
			}
			segs = append(segs, append([]byte{}, all[:n]...))
			all = all[n:]
		}
	}
	return segs
}

func expectedObs(units []AUnit) (exp []AObs, whats []string) {
	for _, u := range units {
		for _, o := range u.Obs {
			exp = append(exp, o)
			whats = append(whats, u.What)
		}
	}
	return
}

func obsEq(a, b AObs) bool {
	if a.Kind != b.Kind || a.Stage != b.Stage {
		return false
	}
	if a.Kind == "chunk" {
		return a.Complete == b.Complete && bytes.Equal(a.Content, b.Content) && bytes.Equal(a.Name, b.Name)
	}
	return bytes.Equal(a.Reply, b.Reply)
}

// compareAttach returns "" or (signature, detail)
func compareAttach(units []AUnit, run aRun) (string, string) {
	exp, whats := expectedObs(units)
	if run.Panic != "" {
		return "panic", run.Panic
	}
	// an expected abort ends the expected list
	n := len(exp)
	aborted := false
	for i, o := range exp {
		if o.Kind == "abort" {
			n, aborted = i, true
			break
		}
	}
	for i := 0; i < n; i++ {
		if i >= len(run.Obs) {
			return fmt.Sprintf("missing-event what=%s spec=%s impl-quit=%s", whats[i], exp[i].Stage, quitClass(run.Quit)),
				fmt.Sprintf("event %d missing; impl produced %d events, quit %q", i, len(run.Obs), run.Quit)
		}
		if !obsEq(exp[i], run.Obs[i]) {
			what := "stage"
			switch {
			case exp[i].Stage != run.Obs[i].Stage:
			case !bytes.Equal(exp[i].Reply, run.Obs[i].Reply):
				what = "reply"
			case !bytes.Equal(exp[i].Content, run.Obs[i].Content):
				what = "content"
			default:
				what = "name"
			}
			return fmt.Sprintf("obs-differs(%s) what=%s spec=%s impl=%s", what, whats[i], exp[i].Stage, run.Obs[i].Stage),
				fmt.Sprintf("event %d: spec %+v impl %+v", i, exp[i], run.Obs[i])
		}
	}
	if len(run.Obs) > n {
		return fmt.Sprintf("extra-event impl=%s", run.Obs[n].Stage), fmt.Sprintf("impl produced %d events, spec %d", len(run.Obs), n)
	}
	if aborted != (quitClass(run.Quit) == "FailQuit") {
		return fmt.Sprintf("quit-differs spec-abort=%v impl=%s", aborted, quitClass(run.Quit)), run.Quit
	}
	if run.Extra != 0 {
		return "unattributed-writes", fmt.Sprint(run.Extra)
	}
	return "", ""
}

func quitClass(q string) string {
	if len(q) >= 8 && q[:8] == "FailQuit" {
		return "FailQuit"
	}
	if q == "" {
		return "none"
	}
	return q
}

func init() {
	// S->I: replay TLC scripts, each under several segmentations
	cmds["attach-replay"] = func(a []string) {
		os.Stdout, _ = os.Open(os.DevNull)
		out := newND(a[1])
		defer out.close()
		modes := []string{"unit", "all", "byte", "pair", "random", "random2"}
		n, runs := 0, 0
		classes := map[string]int{}
		var samples []any
		r := newRand(1515)
		err := readND(a[0], func(i int, raw []byte) error {
			var s AScript
			if err := jsonUnmarshal(raw, &s); err != nil {
				return err
			}
			n++
			if len(samples) < 2 && len(s.Units) > 4 {
				samples = append(samples, s)
			}
			for _, m := range modes {
				run := runAttach(s.Dialect, segment(s.Units, m, r), nil)
				runs++
				classes[s.Dialect+"/"+m]++
				if sig, det := compareAttach(s.Units, run); sig != "" {
					out.put(mismatch{sig, "segmentation=" + m + ": " + det, map[string]any{"script": s, "mode": m}})
					break
				}
				if m == "unit" && len(a) > 2 && a[2] == "parse9212" {
					if sig, det := check9212(run); sig != "" {
						out.put(mismatch{sig, det, map[string]any{"script": s, "mode": m}})
						break
					}
				}
			}
			return nil
		})
		if err != nil {
			die(err)
		}
		out.put(summary{Summary: true, Cases: runs, Distinct: n, Classes: classes, Samples: samples})
	}
}

var _ = errors.New

func runAttachOn(conn *scriptConn, dialect string, rec *recEventer) {
	attachment.VerifServe(conn, dialectOf(dialect), rec)
}

func init() {
	// S->I for MC_AttachSeg: every 1-cut and 2-cut of the script's byte stream, plus byte-by-byte
	cmds["attach-seg-replay"] = func(a []string) {
		os.Stdout, _ = os.Open(os.DevNull)
		out := newND(a[1])
		defer out.close()
		runs := 0
		err := readND(a[0], func(i int, raw []byte) error {
			var s AScript
			if err := jsonUnmarshal(raw, &s); err != nil {
				return err
			}
			var all []byte
			for _, u := range s.Units {
				all = append(all, u.Bytes...)
			}
			try := func(cuts ...int) bool {
				var segs [][]byte
				prev := 0
				for _, c := range append(cuts, len(all)) {
					if c > prev {
						segs = append(segs, append([]byte{}, all[prev:c]...))
						prev = c
					}
				}
				runs++
				if sig, det := compareAttach(s.Units, runAttach(s.Dialect, segs, nil)); sig != "" {
					out.put(mismatch{"segmentation-dependent " + sig, fmt.Sprintf("cuts=%v: %s", cuts, det), map[string]any{"script": s, "cuts": cuts}})
					return false
				}
				return true
			}
			for i := 0; i <= len(all); i++ {
				for j := i; j <= len(all); j++ {
					if !try(i, j) {
						return nil
					}
				}
			}
			return nil
		})
		if err != nil {
			die(err)
		}
		out.put(summary{Summary: true, Cases: runs, Distinct: runs})
	}
}

// ---------------------------------------------------------------- C16: pure range computation
type seg struct {
	Off int `json:"off"`
	Len int `json:"len"`
}
type missCase struct {
	Size   int   `json:"size"`
	Chunks []seg `json:"chunks"`
	Segs   []seg `json:"segs"`
	// the report on the wire (0x9212 body built the way the handlers build it) and read back by the real parser,
	// with a fresh receiver and with one that read the previous report (only when the count fits its byte)
	HasWire bool  `json:"haswire"`
	Name    B     `json:"name"`
	Wire    B     `json:"wire"`
	Parsed  []seg `json:"parsed"`
	Parsed2 []seg `json:"parsed2"`
	// the previous case's report, kept as returned, has not been changed by computing this one
	PrevSame bool `json:"prevsame"`
	// sizes beyond 2^31 bytes: the case is stated in units of Unit bytes (0 or 1: bytes); the real computation runs on bytes
	Unit int `json:"unit"`
}

func init() {
	cmds["c16-replay"] = func(a []string) {
		out := newND(a[1])
		defer out.close()
		n := 0
		classes := map[string]int{}
		var samples []any
		err := readND(a[0], func(i int, raw []byte) error {
			var c missCase
			if err := jsonUnmarshal(raw, &c); err != nil {
				return err
			}
			n++
			classes[fmt.Sprintf("gaps=%d", len(c.Segs))]++
			if len(samples) < 3 && len(c.Segs) >= 2 && len(c.Chunks) >= 2 {
				samples = append(samples, c)
			}
			p := &attachment.Package{FileSize: uint32(c.Size), OffsetRecord: map[int]int{}, OffsetDataRecord: map[int][]byte{}}
			for _, ch := range c.Chunks {
				p.OffsetRecord[ch.Off] = ch.Len
				p.CurrentSize += uint32(ch.Len)
			}
			var got []seg
			if pn := protect(func() {
				for _, s := range p.StatisticalMissSegments() {
					got = append(got, seg{int(s.DataOffset), int(s.DataLength)})
				}
			}); pn != "" {
				out.put(mismatch{"miss-segments-panic", pn, c})
				return nil
			}
			if fmt.Sprint(got) != fmt.Sprint(c.Segs) && !(len(got) == 0 && len(c.Segs) == 0) {
				out.put(mismatch{fmt.Sprintf("miss-segments-differ gaps=%d", len(c.Segs)), fmt.Sprintf("got %v want %v", got, c.Segs), c})
			}
			return nil
		})
		if err != nil {
			die(err)
		}
		out.put(summary{Summary: true, Cases: n, Distinct: n, Classes: classes, Samples: samples})
	}
}

// check9212: the terminal-side inverse (model.P0x9212.Parse) must read from the reply the server
// wrote the same result and ranges as the standard's layout gives (harness-side positional reading).
func check9212(run aRun) (string, string) {
	for _, o := range run.Obs {
		if o.Kind != "control" || (o.Stage != "Complete" && o.Stage != "Supplementary") {
			continue
		}
		dv, m := decodeView(o.Reply)
		if !dv.Ok {
			return "reply-undecodable", fmt.Sprintf("%x", []byte(o.Reply))
		}
		b := dv.Body
		l := int(b[0])
		cnt := int(b[3+l])
		var want []seg
		for i := 0; i < cnt; i++ {
			at := 4 + l + 8*i
			want = append(want, seg{int(binary.BigEndian.Uint32(b[at:])), int(binary.BigEndian.Uint32(b[at+4:]))})
		}
		var p model.P0x9212
		var err error
		if pn := protect(func() { err = p.Parse(m) }); pn != "" || err != nil {
			return "P0x9212.Parse-fails", fmt.Sprint(pn, err)
		}
		var got []seg
		for _, s := range p.P0x9212RetransmitPacketList {
			got = append(got, seg{int(s.DataOffset), int(s.DataLength)})
		}
		if int(p.UploadResult) != int(b[2+l]) || fmt.Sprint(got) != fmt.Sprint(want) {
			return fmt.Sprintf("P0x9212.Parse-misreads-ranges count=%d", cnt), fmt.Sprintf("wire %v parsed %v", want, got)
		}
	}
	return "", ""
}

var (
	heldMiss     []model.P0x9212RetransmitPacket
	heldMissCopy []seg
)

// missReport: the real range computation for a chunk set, its 0x9212 encoding, and the encoding read back
func missReport(i, size int, chunks []seg, reused9212 *model.P0x9212) missCase {
	return missReportUnit(i, size, chunks, reused9212, 1)
}

func missReportUnit(i, size int, chunks []seg, reused9212 *model.P0x9212, unit int) missCase {
	if unit < 1 {
		unit = 1
	}
	p := &attachment.Package{FileSize: uint32(size * unit), OffsetRecord: map[int]int{}, OffsetDataRecord: map[int][]byte{}}
	for _, ch := range chunks {
		p.OffsetRecord[ch.Off*unit] = ch.Len * unit
		p.CurrentSize += uint32(ch.Len * unit)
	}
	got := []seg{}
	raw := p.StatisticalMissSegments()
	for _, s := range raw {
		if int(s.DataOffset)%unit != 0 || int(s.DataLength)%unit != 0 {
			got = append(got, seg{-2, -2}) // not even a multiple of the unit
			continue
		}
		got = append(got, seg{int(s.DataOffset) / unit, int(s.DataLength) / unit})
	}
	// the report computed for the previous package is still what it was (it may not have been encoded and written yet)
	prevSame := true
	if heldMiss != nil {
		for k, s := range heldMiss {
			if k >= len(heldMissCopy) || int(s.DataOffset) != heldMissCopy[k].Off || int(s.DataLength) != heldMissCopy[k].Len {
				prevSame = false
			}
		}
	}
	heldMiss, heldMissCopy = raw, nil
	for _, s := range raw {
		heldMissCopy = append(heldMissCopy, seg{int(s.DataOffset), int(s.DataLength)})
	}
	mc := missCase{Size: size, Chunks: chunks, Segs: got, Name: B{}, Wire: B{}, Parsed: []seg{}, Parsed2: []seg{}, PrevSame: prevSame, Unit: unit}
	if len(got) <= 255 && unit == 1 {
		mc.HasWire = true
		mc.Name = B(fmt.Sprintf("f%d.bin", i))
		rep := model.P0x9212{FileNameLen: byte(len(mc.Name)), FileName: string(mc.Name), FileType: 2}
		if len(got) > 0 {
			rep.UploadResult = 1
			rep.RetransmitPacketNumber = byte(len(got))
			rep.P0x9212RetransmitPacketList = p.StatisticalMissSegments()
		}
		if pn := protect(func() { mc.Wire = rep.Encode() }); pn != "" {
			mc.Wire = B{}
		}
		readBack := func(recv *model.P0x9212) []seg {
			segs := []seg{}
			m := jt808.NewJTMessage()
			m.Body = exact(mc.Wire)
			var err error
			if pn := protect(func() { err = recv.Parse(m) }); pn != "" || err != nil {
				return []seg{{-1, -1}}
			}
			for _, s := range recv.P0x9212RetransmitPacketList {
				segs = append(segs, seg{int(s.DataOffset), int(s.DataLength)})
			}
			return segs
		}
		mc.Parsed = readBack(&model.P0x9212{})
		mc.Parsed2 = readBack(reused9212)
	}
	return mc
}

func init() {
	// I->S for C16: large random chunk sets through the real range computation
	// c16-regen <events> <out>: recompute recorded reports from their chunk sets on the current tree (replay of a Trace_Miss rejection)
	cmds["c16-regen"] = func(a []string) {
		out := newND(a[1])
		defer out.close()
		reused := &model.P0x9212{}
		m := jt808.NewJTMessage()
		m.Body = []byte{1, 'x', 2, 1, 255} // the receiver has read the largest possible report before
		for k := 0; k < 255; k++ {
			m.Body = append(m.Body, 0, 1, byte(k), 0, 0, 0, 0, 7)
		}
		_ = reused.Parse(m)
		if err := readND(a[0], func(i int, raw []byte) error {
			var c missCase
			if err := jsonUnmarshal(raw, &c); err != nil {
				return err
			}
			out.put(missReportUnit(i, c.Size, c.Chunks, reused, c.Unit))
			return nil
		}); err != nil {
			die(err)
		}
	}
	cmds["c16-gen"] = func(a []string) {
		n := atoi(a[0])
		out := newND(a[1])
		defer out.close()
		r := newRand(1616)
		reused9212 := &model.P0x9212{}
		for i := 0; i < n; i++ {
			gaps := []int{1, 5, 126, 127, 128, 129, 200, 254, 255, 256, 300}[r.Intn(11)]
			// alternate gap / chunk; random small widths; optional chunk at 0 and at the end
			chunks := []seg{}
			pos := 0
			if r.Intn(2) == 0 {
				w := 1 + r.Intn(3)
				chunks = append(chunks, seg{0, w})
				pos = w
			}
			for g := 0; g < gaps; g++ {
				pos += 1 + r.Intn(3) // the gap
				w := 1 + r.Intn(3)
				if g == gaps-1 && r.Intn(2) == 0 {
					break // last gap is the tail
				}
				chunks = append(chunks, seg{pos, w})
				pos += w
				if r.Intn(4) == 0 { // adjacent chunk, no gap
					w2 := 1 + r.Intn(2)
					chunks = append(chunks, seg{pos, w2})
					pos += w2
				}
			}
			out.put(missReport(i, pos, chunks, reused9212))
		}
		// files of gigabytes (sizes and offsets beyond 2^31 bytes, up to the 4 GiB the size field can say), stated in MiB units:
		// a few chunks far apart
		const MiB = 1 << 20
		for i := 0; i < 16; i++ {
			size := []int{2049, 3000, 4095, 4095}[i%4]
			var chunks []seg
			for pos := r.Intn(3); pos < size; {
				w := 1 + r.Intn(4)
				if pos+w > size {
					w = size - pos
				}
				chunks = append(chunks, seg{pos, w})
				pos += w + []int{0, 1, 2047, 2048, 2049, 1000 + r.Intn(2000)}[r.Intn(6)]
			}
			r.Shuffle(len(chunks), func(a, b int) { chunks[a], chunks[b] = chunks[b], chunks[a] })
			out.put(missReportUnit(n+i, size, chunks, reused9212, MiB))
		}
	}
}
