"""C08 Location reports are decoded as the standard prescribes (DESIGN.md section 5, C08)."""
import json, os
import vlib
from checks.c01 import run_results, trace_validate

LEVEL = "model_checking"


def check(ctx):
    thorough = ctx.tier == "thorough"
    ctx.build()
    cases = os.path.join(ctx.scratch, "c08_cases.ndjson")
    ctx.tlc("MC_Location", constants={"MaxItems": 2}, env={"VERIF_OUT": cases}, workers=12, timeout=2400)
    res = os.path.join(ctx.scratch, "c08_res.ndjson")
    ctx.vh_ok(["c08-replay", cases, res] + (["sweep"] if thorough else []), timeout=3400)
    run_results(ctx, res, "MC_Location-bodies-replayed-on-T0x0200/T0x0704/T0x0801")
    tr = os.path.join(ctx.scratch, "c08_trace.ndjson")
    ctx.vh_ok(["c08-gen", 6000 if thorough else 600, tr])
    events = vlib.read_nd(tr, quoted=False)

    def sig(inv, e):
        return inv
    trace_validate(ctx, "Trace_Location", tr, events, "random-location-bodies-validated-by-Trace_Location", sig)
    ctx.cov["rule"] = ("MC_Location: basic blocks with every single alarm/status bit, pairs across the low and high bytes, all ones, none; "
                       "the block followed by every sequence of <= 2 additional-information items over every standard id x every length in "
                       "{admissible, +-1, 0} plus unknown ids, contents position coded, flag words single bits; each body replayed on T0x0200, as both "
                       "items of a T0x0704 batch and inside a T0x0801. Thorough: 2^21 structured (every half-word against 16 patterns of the other half) and 2^24 pseudo-random alarm and status words against the specification's exported "
                       "bit tables. Random bodies the other way round (Trace_Location).")
    ctx.cov["exhaustive"] = True
    ctx.assumptions += ["numeric items are compared as the raw big-endian unsigned reading of their bytes; tyre pressures as a map with default 0",
                        "the two-bit load field (status bits 8-9) is not claimed by the property; 0x0801 carries only the 28-byte basic block",
                        "BCD time bytes are generated with decimal digits only"]


def replay(ctx, path):
    r = json.load(open(path))["replay"]
    ctx.build()
    if r.get("case"):
        f = os.path.join(ctx.scratch, "one.ndjson"); cs = r["case"] if isinstance(r["case"], list) else [r["case"]]      # a mixed-batch case carries its predecessor
        open(f, "w").write("".join(json.dumps(c) + "\n" for c in cs))
        out = os.path.join(ctx.scratch, "one_res.ndjson")
        ctx.vh_ok(["c08-replay", f, out]); run_results(ctx, out, "replay")
    else:
        tr = os.path.join(ctx.scratch, "one_tr.ndjson"); open(tr, "w").write(json.dumps(r["event"]) + "\n")
        trace_validate(ctx, "Trace_Location", tr, [r["event"]], "replay", lambda inv, e: inv)
