package main

// C10 driver (JT808 server side): a catalogue of hostile clients x close points, each followed by a
// canary check (an established session keeps getting its heartbeat answered and a command round
// trip, and a fresh connection is accepted).  Runs with the default handlers and with handlers that
// Parse (and String) every message body, as the README recommends.

import (
	"bytes"
	"fmt"
	"math/rand"
	"net"
	"os"
	"runtime"
	"sync"
	"sync/atomic"
	"syscall"
	"time"

	"github.com/cuteLittleDevil/go-jt808/protocol/jt808"
	"github.com/cuteLittleDevil/go-jt808/protocol/model"
	"github.com/cuteLittleDevil/go-jt808/service"
	"github.com/cuteLittleDevil/go-jt808/shared/consts"
	"github.com/cuteLittleDevil/go-jt808/terminal"
)

// parseAll is the README pattern: per-connection handler objects whose read callback parses the body.
type parseAll struct {
	service.JT808Handler
}

func (p *parseAll) OnReadExecutionEvent(m *service.Message) {
	if err := p.Parse(m.JTMessage); err == nil {
		if s, ok := p.JT808Handler.(fmt.Stringer); ok {
			_ = s.String()
		}
	}
}
func (p *parseAll) OnWriteExecutionEvent(_ service.Message) {}

func modelHandlers() map[consts.JT808CommandType]func() service.JT808Handler {
	return map[consts.JT808CommandType]func() service.JT808Handler{
		consts.T0001GeneralRespond:                    func() service.JT808Handler { return &model.T0x0001{} },
		consts.T0100Register:                          func() service.JT808Handler { return &model.T0x0100{} },
		consts.T0102RegisterAuth:                      func() service.JT808Handler { return &model.T0x0102{} },
		consts.T0002HeartBeat:                         func() service.JT808Handler { return &model.T0x0002{} },
		consts.T0200LocationReport:                    func() service.JT808Handler { return &model.T0x0200{} },
		consts.T0704LocationBatchUpload:               func() service.JT808Handler { return &model.T0x0704{} },
		consts.T0104QueryParameter:                    func() service.JT808Handler { return &model.T0x0104{} },
		consts.T0805CameraShootImmediately:            func() service.JT808Handler { return &model.T0x0805{} },
		consts.T0800MultimediaEventInfoUpload:         func() service.JT808Handler { return &model.T0x0800{} },
		consts.T0801MultimediaDataUpload:              func() service.JT808Handler { return &model.T0x0801{} },
		consts.P8003ReissueSubcontractingRequest:      func() service.JT808Handler { return &model.P0x8003{} },
		consts.P8103SetTerminalParams:                 func() service.JT808Handler { return &model.P0x8103{} },
		consts.P8104QueryTerminalParams:               func() service.JT808Handler { return &model.P0x8104{} },
		consts.P8801CameraShootImmediateCommand:       func() service.JT808Handler { return &model.P0x8801{} },
		consts.P9003QueryTerminalAudioVideoProperties: func() service.JT808Handler { return &model.P0x9003{} },
		consts.T1003UploadAudioVideoAttr:              func() service.JT808Handler { return &model.T0x1003{} },
		consts.T1005UploadPassengerFlow:               func() service.JT808Handler { return &model.T0x1005{} },
		consts.P9101RealTimeAudioVideoRequest:         func() service.JT808Handler { return &model.P0x9101{} },
		consts.P9102AudioVideoControl:                 func() service.JT808Handler { return &model.P0x9102{} },
		consts.P9205QueryResourceList:                 func() service.JT808Handler { return &model.P0x9205{} },
		consts.T1205UploadAudioVideoResourceList:      func() service.JT808Handler { return &model.T0x1205{} },
		consts.P9206FileUploadInstructions:            func() service.JT808Handler { return &model.P0x9206{} },
		consts.T1206FileUploadCompleteNotice:          func() service.JT808Handler { return &model.T0x1206{} },
		consts.P9207FileUploadControl:                 func() service.JT808Handler { return &model.P0x9207{} },
		consts.P9208AlarmAttachUpload:                 func() service.JT808Handler { return &model.P0x9208{} },
		consts.T1210AlarmAttachInfoMessage:            func() service.JT808Handler { return &model.T0x1210{} },
		consts.T1211FileInfoUpload:                    func() service.JT808Handler { return &model.T0x1211{} },
		consts.T1212FileUploadComplete:                func() service.JT808Handler { return &model.T0x1212{} },
	}
}

// seedBodies: valid bodies from the terminal simulator (for mutation)
func seedBodies() map[int][][]byte {
	out := map[int][][]byte{}
	for _, ver := range []consts.ProtocolVersionType{consts.JT808Protocol2011, consts.JT808Protocol2013, consts.JT808Protocol2019} {
		t := terminal.New(terminal.WithHeader(ver, "13800000001"))
		for id := range modelHandlers() {
			data := t.CreateDefaultCommandData(id)
			if data == nil {
				continue
			}
			m := jt808.NewJTMessage()
			if m.Decode(data) == nil {
				out[int(id)] = append(out[int(id)], append([]byte{}, m.Body...))
			}
		}
	}
	return out
}

// hostile describes what one hostile client does on its connection
type hostile struct {
	name  string
	sends [][]byte // writes
	how   string   // "close", "reset", "hang" (keep open), "noread" (never read; commands are sent to it)
	phone []byte   // every hostile client has its own key
}

func hostileCatalogue(r *rand.Rand, base []byte) []hostile {
	phone := append([]byte{}, base...)
	n := 0
	fr := func(h hdrSpec) []byte {
		if h.phone == nil {
			h.phone = phone
		}
		return buildFrame(h)
	}
	hb := fr(hdrSpec{id: 0x0002, serial: 1})
	var hs []hostile
	add := func(name string, how string, sends ...[]byte) {
		hs = append(hs, hostile{name, sends, how, append([]byte{}, phone...)})
		n++ // the frames of the next entry are built with the next phone
		phone = append([]byte{}, base...)
		phone[4], phone[5] = byte(n/100%10), byte(n/10%10<<4|n%10)
	}
	add("connect-and-close", "close")
	add("connect-and-reset", "reset")
	add("half-frame-close", "close", hb[:len(hb)/2])
	add("half-frame-reset", "reset", hb[:len(hb)-1])
	add("join-then-reset-mid-frame", "reset", hb, hb[:5])
	g := randBytes(r, 3000)
	for i := range g {
		if g[i] == 0x7e {
			g[i] = 0x7f
		}
	}
	add("garbage-without-delimiter", "close", g, hb)
	bad := append([]byte{}, hb...)
	bad[len(bad)-2] ^= 0x55
	add("bad-checksum", "hang", bad, hb)
	add("bad-escape", "hang", []byte{0x7e, 0x00, 0x02, 0x7d, 0x05, 0x00, 0x00, 0x01, 0x7e})
	lm := fr(hdrSpec{id: 0x0200, serial: 2, body: randBytes(r, 30)})
	lm[4] ^= 0x03 // declared length off
	add("length-mismatch", "hang", lm)
	add("delimiters-only", "close", []byte{0x7e, 0x7e, 0x7e, 0x7e, 0x7e, 0x7e})
	add("package-number-0", "close", hb, fr(hdrSpec{id: 0x0801, serial: 3, frag: 1, total: 3, no: 0, body: []byte{1, 2, 3}}), hb)
	add("package-number-beyond-total", "close", hb, fr(hdrSpec{id: 0x0801, serial: 3, frag: 1, total: 3, no: 9, body: []byte{1, 2, 3}}), hb)
	add("package-total-0-with-fragment-bit", "close", hb, fr(hdrSpec{id: 0x0801, serial: 3, frag: 1, total: 0, no: 1, body: []byte{1, 2, 3}}), hb)
	add("package-total-65535", "close", fr(hdrSpec{id: 0x0801, serial: 3, frag: 1, total: 65535, no: 1, body: []byte{1}}),
		fr(hdrSpec{id: 0x0801, serial: 4, frag: 1, total: 65535, no: 65535, body: []byte{1}}), hb)
	add("package-totals-disagree", "close", hb, fr(hdrSpec{id: 0x0801, serial: 3, frag: 1, total: 2, no: 1, body: []byte{1, 2, 3}}),
		fr(hdrSpec{id: 0x0801, serial: 4, frag: 1, total: 3, no: 2, body: []byte{4, 5}}), fr(hdrSpec{id: 0x0801, serial: 5, frag: 1, total: 3, no: 3, body: []byte{6}}),
		fr(hdrSpec{id: 0x0704, serial: 6, frag: 1, total: 3, no: 1, body: []byte{1}}), fr(hdrSpec{id: 0x0704, serial: 7, frag: 1, total: 2, no: 2, body: []byte{2}}),
		fr(hdrSpec{id: 0x0704, serial: 8, frag: 1, total: 1, no: 3, body: []byte{3}}), hb)
	add("unknown-ids", "close", fr(hdrSpec{id: 0x0f0f, serial: 1}), fr(hdrSpec{id: 0xffff, serial: 2, body: randBytes(r, 40)}), fr(hdrSpec{id: 0, serial: 3}))
	// 0x0102 (2019) whose authentication code is 255 bytes long: a legal message
	b := append([]byte{255}, randBytes(r, 255)...)
	b = append(b, randBytes(r, 35)...)
	add("auth-2019-code-length-255", "close", fr(hdrSpec{id: 0x0102, ver: 1, verbyte: 1, serial: 5, phone: randPhone(r, 1), body: b}), hb)
	add("terminal-sends-0x8003", "close", hb, fr(hdrSpec{id: 0x8003, serial: 6, body: []byte{0, 1, 2, 0, 1, 0, 2}}), fr(hdrSpec{id: 0x8003, serial: 7}))
	add("max-bodies", "close", fr(hdrSpec{id: 0x0200, serial: 8, body: randBytes(r, 1023)}), fr(hdrSpec{id: 0x0704, serial: 9, body: randBytes(r, 1023)}))
	// adversarial bodies for every supported id: empty, one byte, all-FF counts, truncations and byte flips of valid bodies
	seeds := seedBodies()
	for id := range modelHandlers() {
		var sends [][]byte
		ser := 10
		put := func(body []byte, ver int) {
			ser++
			ph := phone
			if ver == 1 {
				ph = append(make([]byte, 4), phone...)
			}
			sends = append(sends, fr(hdrSpec{id: int(id), serial: ser, ver: ver, verbyte: 1, phone: ph, body: body}))
		}
		for ver := 0; ver < 2; ver++ {
			put(nil, ver)
			put([]byte{0xff}, ver)
			put([]byte{0xff, 0xff, 0xff, 0xff, 0xff, 0xff, 0xff, 0xff}, ver)
			put(randBytes(r, 3+r.Intn(60)), ver)
			for _, sb := range seeds[int(id)] {
				for k := 0; k < 12; k++ {
					m := append([]byte{}, sb...)
					switch r.Intn(3) {
					case 0:
						m = m[:r.Intn(len(m)+1)]
					case 1:
						if len(m) > 0 {
							m[r.Intn(len(m))] = []byte{0xff, 0x00, 0x7f, 0x80}[r.Intn(4)]
						}
					case 2:
						m = append(m, randBytes(r, 1+r.Intn(5))...)
					}
					put(m, ver)
				}
			}
		}
		add(fmt.Sprintf("adversarial-bodies-%04x", int(id)), "close", sends...)
	}
	// location additional-information items with impossible lengths
	blk := make([]byte, 28)
	var loc [][]byte
	for _, item := range [][]byte{{0x31, 0x00}, {0x31}, {0x01, 0x02, 0, 0}, {0x30, 0x00}, {0x2b, 0x09, 1, 2}, {0xe1, 0xff}, {0x14, 0x04, 0}, {0x64, 0x2f}, {0x65, 0x01, 0}, {0x66, 0x28}, {0x67, 0x02, 0, 0}, {0x70, 0x30}} {
		loc = append(loc, fr(hdrSpec{id: 0x0200, serial: 40 + len(loc), body: append(append([]byte{}, blk...), item...)}))
	}
	add("location-additional-items-impossible-lengths", "close", loc...)
	// every item id 0x00..0xFF with declared lengths 0, 1, 2, 3 and 5 (content as declared, and one byte short of it)
	var sweep [][]byte
	for id := 0; id < 256; id++ {
		for _, n := range []int{0, 1, 2, 3, 5} {
			item := append([]byte{byte(id), byte(n)}, bytes.Repeat([]byte{byte(id)}, n)...)
			sweep = append(sweep, fr(hdrSpec{id: 0x0200, serial: (len(sweep) + 100) % 65536, body: append(append([]byte{}, blk...), item...)}))
			if n > 0 {
				sweep = append(sweep, fr(hdrSpec{id: 0x0704, serial: (len(sweep) + 100) % 65536, body: append([]byte{0, 1, 0, 0, byte(28 + 2 + n - 1)}, append(append([]byte{}, blk...), item[:len(item)-1]...)...)}))
			}
		}
	}
	add("location-additional-items-every-id-short-lengths", "close", sweep...)
	add("short-responses-while-a-command-is-outstanding", "respond-short", fr(hdrSpec{id: 0x0002, serial: 1}))
	add("never-reads-while-commands-are-queued", "noread", fr(hdrSpec{id: 0x0002, serial: 1})) // joins under its own key: the commands below are addressed to it
	return hs
}

func init() {
	// live-c10 <mode: default|parseall> <trace>
	cmds["live-c10"] = func(a []string) {
		opts := liveOpts{traceTo: a[1]}
		if a[0] == "parseall" {
			opts.handlers = func() map[consts.JT808CommandType]service.Handler {
				m := map[consts.JT808CommandType]service.Handler{}
				for id, mk := range modelHandlers() {
					m[id] = &parseAll{mk()}
				}
				return m
			}
		}
		l := startLive(opts)
		r := newRand(1010)
		// the canary: an established, well-behaved session
		cphone := []byte{0x01, 0x35, 0x55, 0x55, 0x55, 0x55}
		canary := l.dial(cphone, 0)
		ckey := string(asciiDigits(cphone))
		nrecv := int64(0)
		kid := 0
		probe := func(after string) bool {
			canary.send(canary.frame(0x0002, nil))
			nrecv++
			ok := canary.waitRecv(nrecv, 8*time.Second)
			// a command round trip through the session manager
			kid++
			res := make(chan cmdResult, 1)
			go func(k int) {
				res <- l.sendActive(canary.idx, k, ckey, consts.P8104QueryTerminalParams, nil, 2*time.Second)
			}(kid)
			nrecv++
			if canary.waitRecv(nrecv, 8*time.Second) {
				// answer the command we just received (last frame)
				var last []byte
				for len(canary.recvCh) > 0 {
					last = <-canary.recvCh
				}
				if dv, _ := decodeView(last); dv.Ok && dv.ID == 0x8104 {
					canary.send(canary.frame(0x0104, respBody(0x0104, dv.Serial, 0x8104)))
				}
			} else {
				ok = false
			}
			select {
			case rr := <-res:
				if rr.Kind != "resp" {
					ok = false
				}
			case <-time.After(4 * time.Second):
				ok = false
			}
			// a new connection is accepted and served
			if tc, err := net.DialTimeout("tcp", l.addr, 2*time.Second); err != nil {
				l.rec.log(canary.idx, "D", "canary", "after", after, "ok", false, "why", "connect: "+err.Error())
				time.Sleep(50 * time.Millisecond)
				l.dump(a[1]) // the server does not accept any more: nothing further can be driven
				os.Exit(0)
				return false
			} else {
				select { // (the server started a connection for it: its number is used up)
				case <-l.newConn:
				case <-time.After(2 * time.Second):
				}
				tc.Close()
			}
			fp := []byte{0x01, 0x34, byte(r.Intn(10)<<4 | r.Intn(10)), byte(r.Intn(10)<<4 | r.Intn(10)), byte(r.Intn(10)<<4 | r.Intn(10)), byte(r.Intn(10)<<4 | r.Intn(10))}
			f := l.dial(fp, 0)
			f.send(f.frame(0x0002, nil))
			if !f.waitRecv(1, 8*time.Second) {
				ok = false
			}
			f.close(false)
			l.rec.log(canary.idx, "D", "canary", "after", after, "ok", ok)
			return ok
		}
		probe("start")
		hphone := []byte{0x01, 0x33, 0x00, 0x00, 0x00, 0x01}
		var hung []*term
		for _, h := range hostileCatalogue(r, hphone) {
			t := l.dialWith(h.phone, 0, h.how == "noread") // noread: a tiny receive window and no reads - the server's writes to it stall
			l.rec.log(t.idx, "D", "hostile", "name", h.name)
			for _, s := range h.sends {
				if err := t.send(s); err != nil {
					break
				}
				time.Sleep(200 * time.Microsecond)
			}
			switch h.how {
			case "close":
				time.Sleep(2 * time.Millisecond)
				t.close(false)
			case "reset":
				t.close(true)
			case "hang":
				hung = append(hung, t)
			case "respond-short":
				// it joined; a command is outstanding on it while it sends every response id with an empty, a one-byte and a two-byte body
				key := string(asciiDigits(h.phone))
				kid++
				cdone := make(chan struct{})
				go func(k int) {
					l.sendActive(t.idx, k, key, consts.P9205QueryResourceList, make([]byte, 24), 1500*time.Millisecond)
					close(cdone)
				}(kid)
				t.waitRecv(2, 2*time.Second) // the heartbeat's reply and the command
				ser := 100
				for _, id := range []int{0x0001, 0x0104, 0x0805, 0x1003, 0x1205, 0x1206} {
					for _, b := range [][]byte{{}, {0x00}, {0x00, 0x01}, {0xff, 0xff, 0xff}} {
						ser++
						t.send(buildFrame(hdrSpec{id: id, serial: ser, phone: h.phone, body: b}))
						time.Sleep(300 * time.Microsecond)
					}
				}
				select {
				case <-cdone:
				case <-time.After(6 * time.Second):
					l.rec.log(t.idx, "K", "cmd_stranded", "k", -1, "tmo", 1500)
				}
				t.close(false)
			case "noread":
				// it joined with its heartbeat; it keeps sending heartbeats without ever reading the replies, until the
				// server's writer for this connection is stuck in Write (our own writes stall once every buffer is full)
				var progress atomic.Int64
				l.muted.Store(t.idx, &progress)
				batch := bytes.Repeat(t.frame(0x0002, nil), 200)
				stalled := "no"
				nb := 0
				quiet := func() { // wait until the server has made no progress on this connection for 300 ms
					for last, since := progress.Load(), time.Now(); time.Since(since) < 300*time.Millisecond; time.Sleep(20 * time.Millisecond) {
						if now := progress.Load(); now != last {
							last, since = now, time.Now()
						}
					}
				}
				for ; nb < 2000 && stalled == "no"; nb++ {
					t.conn.SetWriteDeadline(time.Now().Add(300 * time.Millisecond))
					if _, err := t.conn.Write(batch); err != nil {
						quiet()
						stalled = "yes: the terminal's own writes time out and the server makes no progress"
					}
				}
				l.rec.log(t.idx, "D", "flood", "batches", nb, "stalled", stalled)
				t.conn.SetWriteDeadline(time.Time{})
				// now commands are sent to it from several callers, with time-outs longer than any probe is willing to wait:
				// they may fail or time out, but nobody else may notice
				key := string(asciiDigits(h.phone))
				done := make(chan struct{}, 16)
				for i := 0; i < 8; i++ {
					kid++
					go func(k int) {
						l.sendActive(t.idx, k, key, consts.P8103SetTerminalParams, randBytes(r, 900), 2500*time.Millisecond)
						done <- struct{}{}
					}(kid)
				}
				time.Sleep(50 * time.Millisecond)
				probe(h.name + " (commands pending)")
				for i := 0; i < 8; i++ {
					select {
					case <-done:
					case <-time.After(9 * time.Second):
						l.rec.log(t.idx, "K", "cmd_stranded", "k", -1, "tmo", 2500)
					}
				}
				hung = append(hung, t)
			}
			probe(h.name)
		}
		// clients that fire body-dependent requests (well-formed and cut short) at full speed while the established session makes
		// its own: every reply the established session gets is computed from its own request, whatever the neighbours send
		{
			var fw sync.WaitGroup
			stopFlood := make(chan struct{})
			for k := 0; k < 3; k++ {
				fp := []byte{0x01, 0x33, 0x00, 0x00, 0x09, byte(k)}
				ft := l.dial(fp, 0)
				var progress atomic.Int64
				l.muted.Store(ft.idx, &progress)
				l.rec.log(ft.idx, "D", "hostile", "name", "flood-of-body-dependent-requests-beside-the-established-session")
				fw.Add(1)
				go func(ft *term, seed int64) {
					defer fw.Done()
					rr := rand.New(rand.NewSource(seed))
					for i := 0; i < 4000; i++ {
						select {
						case <-stopFlood:
							ft.close(false)
							return
						default:
						}
						body := randBytes(rr, 36+rr.Intn(20))
						if rr.Intn(3) == 0 {
							body = body[:rr.Intn(36)] // too short for its fixed fields
						}
						id := []int{0x0801, 0x0801, 0x0102, 0x1211}[rr.Intn(4)]
						if id == 0x1211 {
							body = append([]byte{byte(3 + rr.Intn(5))}, randBytes(rr, 12)...)
						}
						ft.conn.SetWriteDeadline(time.Now().Add(2 * time.Second))
						if _, err := ft.conn.Write(ft.frame(id, body)); err != nil {
							break
						}
					}
					ft.close(false)
				}(ft, r.Int63())
			}
			for i := 0; i < 150; i++ {
				body := randBytes(r, 36+r.Intn(30))
				canary.send(canary.frame([]int{0x0801, 0x0102}[i%5/4], body))
				nrecv++
				if i%10 == 9 {
					canary.waitRecv(nrecv, 8*time.Second)
				}
			}
			canary.waitRecv(nrecv, 8*time.Second)
			close(stopFlood)
			fw.Wait()
			for len(canary.recvCh) > 0 {
				<-canary.recvCh
			}
		}
		probe("flood-of-body-dependent-requests-beside-the-established-session")
		// connections that end before they ever joined (silent, half a frame, refused as a duplicate of the established key):
		// whatever the server held for them - descriptor, goroutines - is released
		{
			countFDs := func() int {
				es, _ := os.ReadDir("/proc/self/fd")
				return len(es)
			}
			time.Sleep(200 * time.Millisecond)
			fd0, g0 := countFDs(), runtime.NumGoroutine()
			for i := 0; i < 150; i++ {
				ph := []byte{0x01, 0x33, 0x00, 0x08, byte(i / 100), byte(i%100/10<<4 | i%10)}
				if i%3 == 2 {
					ph = cphone
				}
				d := l.dial(ph, 0)
				if i == 0 {
					l.rec.log(d.idx, "D", "hostile", "name", "150-connections-that-end-before-joining")
				}
				switch i % 3 {
				case 1:
					f := d.frame(0x0200, make([]byte, 28))
					d.send(f[:len(f)/2])
				case 2:
					d.send(d.frame(0x0002, nil))
					time.Sleep(2 * time.Millisecond)
				}
				d.close(i%2 == 0)
			}
			fd1, g1 := 0, 0
			for k := 0; k < 60; k++ { // teardown is asynchronous: wait (up to 6 s) until the counts are back, report what is left
				time.Sleep(100 * time.Millisecond)
				fd1, g1 = countFDs(), runtime.NumGoroutine()
				if fd1-fd0 <= 5 && g1-g0 <= 10 {
					break
				}
			}
			l.rec.log(canary.idx, "D", "leak", "fds", fd1-fd0, "goroutines", g1-g0, "after", "150-connections-that-end-before-joining")
		}
		probe("150-connections-that-end-before-joining")
		// the process runs out of descriptors for a moment (an operator's limit, a burst of connections): accept fails once or a few
		// times; when descriptors are free again the server accepts as before
		{
			var lim, old syscall.Rlimit
			if syscall.Getrlimit(syscall.RLIMIT_NOFILE, &old) == nil {
				lim = old
				lim.Cur = 600
				if syscall.Setrlimit(syscall.RLIMIT_NOFILE, &lim) == nil {
					var filler []*os.File
					for {
						f, err := os.Open(os.DevNull)
						if err != nil {
							break
						}
						filler = append(filler, f)
					}
					exhausted := len(filler) > 0
					if exhausted {
						filler[len(filler)-1].Close() // one descriptor: enough for a client socket, none left for the accept
						filler = filler[:len(filler)-1]
						if c, err := net.DialTimeout("tcp", l.addr, time.Second); err == nil {
							time.Sleep(60 * time.Millisecond)
							c.Close()
						}
					}
					for _, f := range filler {
						f.Close()
					}
					syscall.Setrlimit(syscall.RLIMIT_NOFILE, &old)
					time.Sleep(50 * time.Millisecond)
					// (the connection that could not be accepted may be accepted now: it is connection number next, closed already)
					select {
					case <-l.newConn:
					case <-time.After(300 * time.Millisecond):
					}
					l.rec.log(canary.idx, "D", "hostile", "name", "descriptor-exhaustion-at-accept")
				}
			}
		}
		probe("descriptor-exhaustion-at-accept")
		// a client that presents the established session's key is refused; the established session keeps its registration
		for i := 0; i < 3; i++ {
			d := l.dial(cphone, 0)
			l.rec.log(d.idx, "D", "hostile", "name", "duplicate-of-the-established-key")
			d.send(d.frame(0x0002, nil))
			time.Sleep(5 * time.Millisecond)
			d.close(i%2 == 0)
			time.Sleep(5 * time.Millisecond)
		}
		probe("duplicate-of-the-established-key")
		for _, t := range hung {
			t.close(true)
		}
		probe("end")
		canary.close(false)
		time.Sleep(100 * time.Millisecond)
		l.dump(a[1])
	}
}

var _ = net.Dial
