------------------------------- MODULE Bytes -------------------------------
(* Byte-string helpers shared by every module.  A byte is a natural in      *)
(* 0..255, a byte string is a sequence of bytes.  TLC integers are 32-bit   *)
(* signed, so anything wider than 31 bits is kept as a big-endian tuple.    *)
EXTENDS Integers, Sequences, FiniteSets, Bitwise, SequencesExt, Functions

Byte == 0..255

\* FoldLeft has an iterative Java override: no deep recursion on 1 KB strings
XorAll(s) == FoldLeft(LAMBDA acc, b : acc ^^ b, 0, s)

BE16(hi, lo) == hi * 256 + lo
Hi(w) == (w \div 256) % 256
Lo(w) == w % 256
U16(w) == <<Hi(w), Lo(w)>>

\* 32-bit big-endian words are 4-tuples of bytes; value only when it fits 31 bits.
U32Small(n) == <<(n \div 16777216) % 256, (n \div 65536) % 256, (n \div 256) % 256, n % 256>>
ValSmall(t) == ((t[1] * 256 + t[2]) * 256 + t[3]) * 256 + t[4]   \* caller guarantees t[1] < 128

\* bit i (0 = least significant) of a big-endian byte tuple of n bytes
BitOf(t, i) == (t[Len(t) - (i \div 8)] \div (2 ^ (i % 8))) % 2

\* iterative flatten (SequencesExt!FlattenSeq is a depth-n recursive function)
Flat(ss) == FoldLeft(LAMBDA acc, x : acc \o x, <<>>, ss)

\* TLC keeps [i \in 1..n |-> e] lazy: every Len() or index re-evaluates e.  Mat forces a concrete tuple.
Mat(s) == s \o <<>>

Sub(s, a, b) == IF a > b THEN <<>> ELSE SubSeq(s, a, b)      \* total SubSeq
Drop(s, n) == Sub(s, n + 1, Len(s))
Take(s, n) == Sub(s, 1, IF n < Len(s) THEN n ELSE Len(s))

\* BCD: each byte gives two nibbles
Nibbles(s) == Mat([i \in 1..(2 * Len(s)) |-> IF i % 2 = 1 THEN s[(i + 1) \div 2] \div 16 ELSE s[(i + 1) \div 2] % 16])
RECURSIVE StripLead(_)
StripLead(d) == IF Len(d) > 0 /\ d[1] = 0 THEN StripLead(Tail(d)) ELSE d
\* Bcd2Dec: leading zero digits removed; an all-zero field is kept whole
PhoneDigits(bcd) == LET n == Nibbles(bcd) s == StripLead(n) IN IF s = <<>> THEN n ELSE s

Concat(ss) == Flat(ss)

\* first position >= i holding byte b, 0 when absent
IndexFrom(s, b, i) == IF i > Len(s) THEN 0 ELSE SelectInSubSeq(s, i, Len(s), LAMBDA x : x = b)

\* all strings over alphabet A of length exactly n / up to n
RECURSIVE StringsN(_, _)
StringsN(A, n) == IF n = 0 THEN {<<>>} ELSE {Append(s, a) : s \in StringsN(A, n - 1), a \in A}
StringsUpTo(A, n) == UNION {StringsN(A, k) : k \in 0..n}
=============================================================================
