---------------------------- MODULE Trace_Registry ----------------------------
(* C11, implementation -> specification.  The backbone of the trace is the    *)
(* session manager's own log (hook points inside its join / leave / route     *)
(* closures: the single goroutine that owns the registry is the linearization *)
(* point of every registry operation).  Around it: the per-connection         *)
(* callbacks (OnJoinEvent / OnLeaveEvent), the start of stop() with the key   *)
(* the connection holds, the writer's cmd_written, the callers' returns.      *)
(* All stamped under one mutex (causal order).                                *)
EXTENDS Integers, Sequences, FiniteSets, TLC, Json, IOUtils, CSV, SequencesExt

Trace == ndJsonDeserialize(IOEnv.VERIF_TRACE)
VARIABLES l, owner, joinedKey, stopping, joinOk, leaveCb, routed, refused, callKey, bad
Init == l = 1 /\ owner = <<>> /\ joinedKey = <<>> /\ stopping = <<>> /\ joinOk = <<>> /\ leaveCb = <<>> /\ routed = <<>> /\ refused = {} /\ callKey = <<>> /\ bad = <<>>
E == Trace[l]
Ext(fn, k, v) == [y \in DOMAIN fn \cup {k} |-> IF y = k THEN v ELSE fn[y]]
Without(fn, k) == [y \in DOMAIN fn \ {k} |-> fn[y]]
Get(fn, k, d) == IF k \in DOMAIN fn THEN fn[k] ELSE d
Flag(ok, what) == IF ok THEN bad ELSE Append(bad, [l |-> l, what |-> what])
Same == UNCHANGED <<owner, joinedKey, stopping, joinOk, leaveCb, routed, refused, callKey>>

MJoinOk == /\ E.ev = "M.join.ok"
           /\ bad' = Flag(E.key \notin DOMAIN owner, "JoinOverwroteOwner")
           /\ owner' = Ext(owner, E.key, E.conn) /\ joinedKey' = Ext(joinedKey, E.conn, E.key)
           /\ UNCHANGED <<stopping, joinOk, leaveCb, routed, refused, callKey>>
MJoinRefused == /\ E.ev = "M.join.refused"
                /\ bad' = Flag(E.key \in DOMAIN owner /\ Get(owner, E.key, -1) # E.conn, "RefusedFreeKey")
                /\ refused' = refused \cup {E.conn} /\ UNCHANGED <<owner, joinedKey, stopping, joinOk, leaveCb, routed, callKey>>
SBegin == /\ E.ev = "S.begin"
          /\ bad' = Flag(E.key = Get(joinedKey, E.c, ""), "StopWithForeignKey")
          /\ stopping' = Ext(stopping, E.c, E.key) /\ UNCHANGED <<owner, joinedKey, joinOk, leaveCb, routed, refused, callKey>>
MLeave == /\ E.ev = "M.leave"
          /\ IF E.key \in DOMAIN owner
             THEN /\ bad' = Flag(Get(stopping, owner[E.key], "?") = E.key, "LeaveFreedForeignKey")
                  /\ owner' = Without(owner, E.key)
             ELSE /\ bad' = Flag(E.key = "" \/ \E c \in DOMAIN stopping : stopping[c] = E.key, "LeaveOfUnknownKey") /\ owner' = owner
          /\ UNCHANGED <<joinedKey, stopping, joinOk, leaveCb, routed, refused, callKey>>
JoinCb == /\ E.ev = "join"
          /\ IF E.ok THEN /\ bad' = Flag(Get(joinedKey, E.c, "?") = E.key /\ Get(joinOk, E.c, 0) # 1, "JoinCallback")
                          /\ joinOk' = Ext(joinOk, E.c, 1)
             ELSE /\ bad' = Flag(E.c \notin DOMAIN joinedKey, "RefusedCallbackForOwner") /\ joinOk' = Ext(joinOk, E.c, 2)
          /\ UNCHANGED <<owner, joinedKey, stopping, leaveCb, routed, refused, callKey>>
LeaveCb == /\ E.ev = "leave"
           \* (the reader announces the join before it can reach its own stop(): leave comes after join; and when the leave callback
           \* runs the registry has already dropped the key - unless another connection has taken it since)
           /\ bad' = Flag(/\ E.key = Get(joinedKey, E.c, "") /\ E.c \notin DOMAIN leaveCb
                          /\ (E.c \in DOMAIN joinedKey => Get(joinOk, E.c, 0) = 1)      \* (a connection that never joined is told of its end too)
                          /\ (E.key \notin DOMAIN owner \/ owner[E.key] # E.c),
                          IF E.c \in DOMAIN joinedKey /\ Get(joinOk, E.c, 0) # 1 THEN "LeaveCallbackBeforeJoinCallback"
                          ELSE IF E.key \in DOMAIN owner /\ owner[E.key] = E.c THEN "LeaveCallbackBeforeTheKeyWasFreed" ELSE "LeaveCallback")
           /\ leaveCb' = Ext(leaveCb, E.c, E.key) /\ UNCHANGED <<owner, joinedKey, stopping, joinOk, routed, refused, callKey>>
\* the caller's key is looked up as it was given (an all-zero phone, a key with leading zeros, the empty key)
CmdCall == /\ E.ev = "cmd_call" /\ callKey' = Ext(callKey, E.k, E.key) /\ bad' = bad
           /\ UNCHANGED <<owner, joinedKey, stopping, joinOk, leaveCb, routed, refused>>
MRoute == /\ E.ev = "M.route.before"
          /\ bad' = Flag(E.key \in DOMAIN owner /\ Get(callKey, E.k, E.key) = E.key, IF E.key \in DOMAIN owner THEN "LookedUpUnderAnotherKey" ELSE "RoutedToOfflineKey")
          /\ routed' = Ext(routed, E.k, Get(owner, E.key, 0)) /\ UNCHANGED <<owner, joinedKey, stopping, joinOk, leaveCb, refused, callKey>>
MNotExist == /\ E.ev = "M.route.notexist"
             /\ bad' = Flag(E.key \notin DOMAIN owner /\ Get(callKey, E.k, E.key) \notin DOMAIN owner, "NotExistForOnlineKey")
             /\ routed' = Ext(routed, E.k, 0) /\ UNCHANGED <<owner, joinedKey, stopping, joinOk, leaveCb, refused, callKey>>
CmdWritten == /\ E.ev = "cmd_written"
              /\ bad' = Flag(Get(routed, E.k, -1) = E.c, "CommandToWrongConnection") /\ Same
CmdRet == /\ E.ev = "cmd_ret"
          /\ bad' = Flag(/\ (E.kind = "notexist") = (Get(routed, E.k, -1) = 0)
                          /\ (E.kind = "notexist" => E.ms < 400),              \* "at once": whatever other keys are doing
                          IF E.kind = "notexist" /\ E.ms >= 400 THEN "NotExistNotAtOnce" ELSE "NotExistResult") /\ Same
Other == /\ E.ev \notin {"cmd_call", "M.join.ok", "M.join.refused", "S.begin", "M.leave", "join", "leave", "M.route.before", "M.route.notexist", "cmd_written", "cmd_ret"}
         /\ bad' = bad /\ Same
Next == l <= Len(Trace) /\ l' = l + 1
        /\ (CmdCall \/ MJoinOk \/ MJoinRefused \/ SBegin \/ MLeave \/ JoinCb \/ LeaveCb \/ MRoute \/ MNotExist \/ CmdWritten \/ CmdRet \/ Other)
\* at most one live connection per key holds structurally (owner is a function); every key is free at the end
Done == l = Len(Trace) + 1
\* the application is told of every join decision (the join callback follows the registry's answer, accepted or refused,
\* whatever the joining message was), and of the end of every connection it was told had joined
Unannounced == {c \in DOMAIN joinedKey : Get(joinOk, c, 0) # 1} \cup {c \in refused : Get(joinOk, c, 0) # 2}
Unleft      == {c \in DOMAIN joinedKey : c \notin DOMAIN leaveCb}
Report == Done => CSVWrite("%1$s", <<ToJson([bad |-> bad, n |-> Len(Trace), online |-> Cardinality(DOMAIN owner),
                                              joins |-> Cardinality(DOMAIN joinOk), unannounced |-> SetToSeq(Unannounced),
                                              unleft |-> SetToSeq(Unleft)])>>, IOEnv.VERIF_OUT)
=============================================================================
