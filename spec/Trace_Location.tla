---------------------------- MODULE Trace_Location ----------------------------
(* C08, implementation -> specification: for seeded random location bodies   *)
(* (random basic block, sequences of standard items with admissible and       *)
(* inadmissible lengths, unknown ids, duplicates, truncations) the reading of *)
(* the real parser is recorded and judged against the standard's tables.      *)
EXTENDS Location, Json, IOUtils
Trace == ndJsonDeserialize(IOEnv.VERIF_TRACE)
VARIABLE l
Init == l = 0
Next == l = 0 /\ l' \in 1..Len(Trace)
E == Trace[l]
R == Report(E.body)
Verdict == l = 0 \/ E.r.ok = R.ok
BaseFields == l = 0 \/ ~(E.r.ok /\ R.ok) \/
    /\ Mat(E.r.alarm) = Mat(R.base.alarm) /\ Mat(E.r.status) = Mat(R.base.status) /\ Mat(E.r.lat) = Mat(R.base.lat)
    /\ Mat(E.r.lon) = Mat(R.base.lon) /\ Mat(E.r.alt) = Mat(R.base.alt) /\ Mat(E.r.speed) = Mat(R.base.speed)
    /\ Mat(E.r.dir) = Mat(R.base.dir) /\ Mat(E.r.time) = Mat(R.base.time)
Flags == l = 0 \/ ~(E.r.ok /\ R.ok) \/ (ToSet(E.r.alarms) = R.base.alarms /\ ToSet(E.r.statuses) = R.base.statuses)
NormV(v) == [k \in DOMAIN v |-> IF k \in {"ExtFlags", "IOFlags"} THEN ToSet(v[k])
                                ELSE IF k \in {"Unknown", "OverSpeedType", "AreaType", "AreaDirection", "RoadResult", "WIFISignalStrength", "GNSSPositionNum"} THEN v[k]
                                ELSE Mat(v[k])]
SpecV(v) == [k \in DOMAIN v |-> IF k \in {"ExtFlags", "IOFlags", "Unknown", "OverSpeedType", "AreaType", "AreaDirection", "RoadResult", "WIFISignalStrength", "GNSSPositionNum"} THEN v[k] ELSE Mat(v[k])]
ItemSet == l = 0 \/ ~(E.r.ok /\ R.ok) \/ {E.r.items[i].id : i \in 1..Len(E.r.items)} = DOMAIN R.items
ItemRaw == l = 0 \/ ~(E.r.ok /\ R.ok) \/ \A i \in 1..Len(E.r.items) :
    LET it == E.r.items[i] IN it.id \in DOMAIN R.items => (it.len = R.items[it.id].len /\ Mat(it.data) = Mat(R.items[it.id].data))
Drop1(v, k) == [x \in DOMAIN v \ {k} |-> v[x]]
\* every item value except the over-speed area id, which has its own invariant
ItemValues == l = 0 \/ ~(E.r.ok /\ R.ok) \/ \A i \in 1..Len(E.r.items) :
    LET it == E.r.items[i] IN it.id \in DOMAIN R.items => Drop1(NormV(it.v), "OverSpeedAreaID") = Drop1(SpecV(R.items[it.id].v), "OverSpeedAreaID")
\* item 0x11: the area id is bytes 1..4 after the type byte
OverSpeedAreaID == l = 0 \/ ~(E.r.ok /\ R.ok) \/ \A i \in 1..Len(E.r.items) :
    LET it == E.r.items[i] IN (it.id = 17 /\ 17 \in DOMAIN R.items) => Mat(it.v.OverSpeedAreaID) = Mat(R.items[17].v.OverSpeedAreaID)
=============================================================================
