------------------------------- MODULE Attach -------------------------------
(* Alarm-attachment upload session (JT/T 808 active-safety extensions):     *)
(* one TCP byte stream carries control frames 0x1210 / 0x1211 / 0x1212      *)
(* (ordinary JT808 frames) and raw file chunks                              *)
(*     30 31 63 64 | name[50] (HLJ: len, name) | offset(4) | length(4) | data*)
(* The server demultiplexes, tracks received ranges per file, answers every *)
(* control frame once (0x8001, or 0x9212 with the missing ranges).          *)
(*                                                                          *)
(* Pure operators: wire formats, unit extraction (Demux), the session       *)
(* transition function Apply, MissSegments and its declarative              *)
(* characterisation.  MC_Attach*.tla / Trace_Attach.tla put them in motion. *)
EXTENDS Frame, TLC

ChunkMarker == <<48, 49, 99, 100>>
Dialects == {"JS", "HLJ", "GD", "HN", "SC"}
\* 0x1210 prefix: terminal id (absent for HLJ), alarm sign, alarm id[32], info type, count
IdLen(d)   == CASE d = "JS" -> 7 [] d = "HLJ" -> 0 [] d = "GD" -> 30 [] d = "HN" -> 7 [] d = "SC" -> 30
SignLen(d) == CASE d = "JS" -> 16 [] d = "HLJ" -> 38 [] d = "GD" -> 40 [] d = "HN" -> 32 [] d = "SC" -> 39

Zeros(n) == [i \in 1..n |-> 0]
Pad(s, n) == IF Len(s) >= n THEN Sub(s, 1, n) ELSE s \o Zeros(n - Len(s))
U32(n) == U32Small(n)
RECURSIVE TrimL(_)
TrimL(s) == IF Len(s) > 0 /\ s[1] = 0 THEN TrimL(Tail(s)) ELSE s
RECURSIVE TrimR(_)
TrimR(s) == IF Len(s) > 0 /\ s[Len(s)] = 0 THEN TrimR(Sub(s, 1, Len(s) - 1)) ELSE s
Trim0(s) == TrimR(TrimL(s))

---------------------------------------------------------------------------
(* Terminal side: what goes on the wire                                     *)
ChunkBytes(d, name, off, data) ==
    IF d = "HLJ" THEN ChunkMarker \o <<Len(name)>> \o name \o U32(off) \o U32(Len(data)) \o data
    ELSE ChunkMarker \o Pad(name, 50) \o U32(off) \o U32(Len(data)) \o data

\* items : sequence of [name, size];  alarm : 32 bytes of alarm id (may contain the marker)
Body1210(d, alarm, items) ==
    Zeros(IdLen(d)) \o Zeros(SignLen(d)) \o Pad(alarm, 32) \o <<0, Len(items)>>
    \o Concat([i \in 1..Len(items) |-> <<Len(items[i].name)>> \o items[i].name \o U32(items[i].size)])
Body1211(name, ftype, size) == <<Len(name)>> \o name \o <<ftype>> \o U32(size)

\* hdr : [ver, phone];  a control frame as terminals send it
Control(hdr, id, serial, body) ==
    TerminalFrame([id |-> id, rsv15 |-> 0, ver |-> hdr.ver, frag |-> 0, enc3 |-> 0, verbyte |-> 1,
                   phone |-> hdr.phone, serial |-> serial, total |-> 0, no |-> 0, body |-> body])

---------------------------------------------------------------------------
(* Server side: bodies                                                      *)
Parse1210(d, b) ==       \* -> [ok, items]
    LET pre == IdLen(d) + SignLen(d) + 32 + 2 IN
    IF Len(b) < pre THEN [ok |-> FALSE, items |-> <<>>] ELSE
    LET cnt == b[pre]
        RECURSIVE Items(_, _, _)
        Items(pos, k, acc) ==      \* pos: bytes consumed so far
            IF k = 0 THEN [ok |-> TRUE, items |-> acc]
            ELSE IF Len(b) < pos + 1 THEN [ok |-> FALSE, items |-> <<>>]
            ELSE LET nl == b[pos + 1] IN
                 IF Len(b) < pos + 1 + nl + 4 THEN [ok |-> FALSE, items |-> <<>>]
                 ELSE Items(pos + 1 + nl + 4, k - 1,
                            Append(acc, [name |-> Sub(b, pos + 2, pos + 1 + nl), size4 |-> Sub(b, pos + nl + 2, pos + nl + 5)]))
    IN IF Len(b) < pre + cnt * 6 THEN [ok |-> FALSE, items |-> <<>>] ELSE Items(pre, cnt, <<>>)

Parse1211(b) ==          \* -> [ok, name, ftype, size4]; 0x1212 has the same layout
    IF Len(b) < 6 \/ Len(b) # 6 + b[1] THEN [ok |-> FALSE]
    ELSE [ok |-> TRUE, name |-> Sub(b, 2, 1 + b[1]), ftype |-> b[2 + b[1]], size4 |-> Sub(b, 3 + b[1], 6 + b[1])]

Body8001(serial, id, result) == U16(serial) \o U16(id) \o <<result>>
\* segs : sequence of [off, len] (small naturals in the models)
Body9212(name, ftype, segs) ==
    <<Len(name)>> \o name \o <<ftype, IF Len(segs) = 0 THEN 0 ELSE 1, Len(segs)>>
    \o Concat([i \in 1..Len(segs) |-> U32(segs[i].off) \o U32(segs[i].len)])

---------------------------------------------------------------------------
(* Received ranges.  got : function offset -> length.                       *)
CoveredSet(got) == UNION {k..(k + got[k] - 1) : k \in DOMAIN got}
Complete(got, size) == CoveredSet(got) = 0..(size - 1)

\* maximal gaps of [0,size) \ covered, ascending: operational definition (sweep over sorted starts)
MissSegments(got, size) ==
    LET cov == CoveredSet(got)
        starts == {x \in 0..(size - 1) : x \notin cov /\ (x = 0 \/ (x - 1) \in cov)}
        EndOf(x) == CHOOSE y \in x..(size - 1) : (\A z \in x..y : z \notin cov) /\ (y = size - 1 \/ (y + 1) \in cov)
        ordered == SortSeq(SetToSeq(starts), LAMBDA a, b : a < b)
    IN [i \in 1..Len(ordered) |-> [off |-> ordered[i], len |-> EndOf(ordered[i]) - ordered[i] + 1]]

\* the same ranges computed on intervals instead of bytes (for files of hundreds of kilobytes): the non-empty gaps before, between
\* and behind the received chunks taken in ascending order.  MC_Miss checks MissIntervals = MissSegments on every small case.
MissIntervals(ch, size) ==
    LET s == SortSeq(ch, LAMBDA a, b : a.off < b.off)
        n == Len(s)
        gapS(i) == IF i = 0 THEN 0 ELSE s[i].off + s[i].len
        gapE(i) == IF i = n THEN size ELSE s[i + 1].off
        idx == SelectSeq([i \in 1..(n + 1) |-> i - 1], LAMBDA i : gapE(i) > gapS(i))
    IN [k \in 1..Len(idx) |-> [off |-> gapS(idx[k]), len |-> gapE(idx[k]) - gapS(idx[k])]]

\* declarative characterisation (C16): exactly the missing bytes, ascending, maximal, non-empty
MissExact(m, got, size) ==
    LET cov == CoveredSet(got) IN
    /\ \A x \in 0..(size - 1) : (\E i \in DOMAIN m : x >= m[i].off /\ x < m[i].off + m[i].len) <=> x \notin cov
    /\ \A i \in DOMAIN m : m[i].len > 0 /\ m[i].off + m[i].len <= size
    /\ \A i \in 1..(Len(m) - 1) : m[i].off + m[i].len < m[i + 1].off

---------------------------------------------------------------------------
(* Unit extraction from the buffered bytes.  kind \in                       *)
(*   "need"    the buffered bytes do not yet hold a whole unit               *)
(*   "chunk"   [name, off, data, used]                                      *)
(*   "control" [frame, used]                                                *)
(*   "garbage" neither a chunk nor a decodable frame: the session aborts    *)
StartsWithMarker(h) == Len(h) >= 4 /\ Sub(h, 1, 4) = ChunkMarker
Val32(t) == ValSmall(t)          \* models keep offsets/lengths below 2^31

Demux(d, h) ==
    IF Len(h) = 0 THEN [kind |-> "need"]
    ELSE IF StartsWithMarker(h) THEN
        LET minhead == IF d = "HLJ" THEN (IF Len(h) < 5 THEN 5 ELSE 4 + 1 + h[5] + 8) ELSE 62 IN
        IF Len(h) < minhead THEN [kind |-> "need"] ELSE
        LET nameraw == IF d = "HLJ" THEN Sub(h, 6, 5 + h[5]) ELSE Sub(h, 5, 54)
            off     == Val32(Sub(h, minhead - 7, minhead - 4))
            dlen    == Val32(Sub(h, minhead - 3, minhead))
        IN IF Len(h) < minhead + dlen THEN [kind |-> "need"]
           ELSE [kind |-> "chunk", name |-> Trim0(nameraw), off |-> off,
                 data |-> Sub(h, minhead + 1, minhead + dlen), used |-> minhead + dlen]
    ELSE IF Len(h) < 10 THEN [kind |-> "need"]
    ELSE LET e == IndexFrom(h, FLAG, 2) IN
         IF e = 0 THEN [kind |-> "need"]
         ELSE LET fr == Sub(h, 1, e) IN
              IF Decode(fr).ok THEN [kind |-> "control", frame |-> fr, used |-> e]
              ELSE [kind |-> "garbage"]

---------------------------------------------------------------------------
(* Session state and the transition function.                               *)
(*  files : name -> [size4, got, data]   (data : offset -> bytes)           *)
(*  head  : header of the first control frame (replies are addressed with   *)
(*          it), <<>> before                                                *)
(*  pser  : next platform serial                                            *)
(*  alive : FALSE after an abort                                            *)
InitSession == [files |-> <<>>, head |-> <<>>, pser |-> 0, alive |-> TRUE]

NewFile(size4) == [size4 |-> size4, got |-> <<>>, data |-> <<>>]
Size(f) == Val32(f.size4)
Assemble(f) == LET offs == SortSeq(SetToSeq(DOMAIN f.data), LAMBDA a, b : a < b)
               IN Concat([i \in 1..Len(offs) |-> f.data[offs[i]]])
FileComplete(f) == Complete(f.got, Size(f))

Ext(fn, k, v) == [x \in DOMAIN fn \cup {k} |-> IF x = k THEN v ELSE fn[x]]

\* Apply(d, s, u) -> [s (next session), obs (what an observer sees for this unit)]
\* obs : [kind, stage, reply, name, complete, content]
Obs(kind, stage, reply, name, complete, content) ==
    [kind |-> kind, stage |-> stage, reply |-> reply, name |-> name, complete |-> complete, content |-> content]
Abort(s, why) == [s |-> [s EXCEPT !.alive = FALSE], obs |-> Obs("abort", why, <<>>, <<>>, FALSE, <<>>)]

Apply(d, s, u) ==
    IF u.kind = "garbage" THEN Abort(s, "garbage")
    ELSE IF u.kind = "chunk" THEN
        IF u.name \notin DOMAIN s.files THEN Abort(s, "unknown-file")
        ELSE LET f  == s.files[u.name]
                 f2 == [f EXCEPT !.got = Ext(f.got, u.off, Len(u.data)), !.data = Ext(f.data, u.off, u.data)]
                 c  == FileComplete(f2)
             IN [s |-> [s EXCEPT !.files = Ext(s.files, u.name, f2)],
                 obs |-> Obs("chunk", IF c THEN "StreamDataComplete" ELSE "StreamData", <<>>, u.name, c,
                             IF c THEN Assemble(f2) ELSE <<>>)]
    ELSE \* control
        LET m    == Decode(u.frame)
            head == IF s.head = <<>> THEN m ELSE s.head
            Rep(id, body) == EncodeReply(head, id, s.pser, body)
            s1   == [s EXCEPT !.head = head]
        IN IF m.id = 4624 THEN      \* 0x1210
               LET p == Parse1210(d, m.body) IN
               IF ~p.ok THEN Abort(s1, "bad-1210")
               ELSE LET RECURSIVE Add(_, _)
                        Add(fs, i) == IF i > Len(p.items) THEN fs
                                      ELSE Add(Ext(fs, p.items[i].name, NewFile(p.items[i].size4)), i + 1)
                    IN [s |-> [s1 EXCEPT !.files = Add(s.files, 1), !.pser = (s.pser + 1) % 65536],
                        obs |-> Obs("control", "Init", Rep(32769, Body8001(m.serial, m.id, 0)), <<>>, FALSE, <<>>)]
           ELSE IF m.id = 4625 THEN \* 0x1211
               LET p == Parse1211(m.body) IN
               IF ~p.ok THEN Abort(s1, "bad-1211")
               ELSE [s |-> [s1 EXCEPT !.pser = (s.pser + 1) % 65536],
                     obs |-> Obs("control", "Start", Rep(32769, Body8001(m.serial, m.id, 0)), p.name, FALSE, <<>>)]
           ELSE IF m.id = 4626 THEN \* 0x1212
               LET p == Parse1211(m.body) IN
               IF ~p.ok THEN Abort(s1, "bad-1212")
               ELSE LET known == p.name \in DOMAIN s.files
                        segs  == IF known THEN MissSegments(s.files[p.name].got, Size(s.files[p.name])) ELSE <<>>
                    IN [s |-> [s1 EXCEPT !.pser = (s.pser + 1) % 65536],
                        obs |-> Obs("control", IF Len(segs) > 0 THEN "Supplementary" ELSE "Complete",
                                    Rep(37394, Body9212(p.name, p.ftype, segs)), p.name,
                                    known /\ Len(segs) = 0, <<>>)]
           ELSE Abort(s1, "unknown-command")

\* Drain: consume whole units from the buffer until more bytes are needed or the session aborts.
\* -> [s, hist, obs (sequence)]
RECURSIVE Drain(_, _, _, _)
Drain(d, s, h, acc) ==
    IF ~s.alive THEN [s |-> s, hist |-> h, obs |-> acc]
    ELSE LET u == Demux(d, h) IN
         IF u.kind = "need" THEN [s |-> s, hist |-> h, obs |-> acc]
         ELSE LET r == Apply(d, s, u) IN
              Drain(d, r.s, IF u.kind = "garbage" THEN h ELSE Drop(h, u.used), Append(acc, r.obs))
=============================================================================
