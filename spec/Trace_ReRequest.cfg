INIT Init
NEXT Next
INVARIANTS OnePerTransfer
CHECK_DEADLOCK FALSE
