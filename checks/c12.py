"""C12 Platform commands are matched with their own responses (DESIGN.md section 5, C12)."""
import json, os
import vlib
from checks import live_common as lc

LEVEL = "model_checking"


def check(ctx):
    thorough = ctx.tier == "thorough"
    ctx.build()
    # (M) the channel protocol: OwnResponse / WrittenOnce / ResultsSane with responding terminals
    cfgs = [dict(Callers="{1, 2}", MaxMsgs=1, CapMsg=2, CapActive=1, CapComplete=1, CapOp=2, TermResponds="TRUE")]
    if thorough:
        cfgs.append(dict(Callers="{1, 2}", MaxMsgs=2, CapMsg=1, CapActive=2, CapComplete=2, CapOp=1, TermResponds="TRUE", SerialMod=4))
    for c in cfgs:
        consts = dict(c); consts["Protocol"] = '"fixed2"'; consts.setdefault("SerialMod", 2); consts["Identity"] = "TRUE"
        ctx.tlc("MC_Conn", constants=consts, workers=14, heap="10g", timeout=3000, name="MC_Conn_%s" % json.dumps(c, sort_keys=True))
    # three callers: the invariants only (MC_Conn_safety.cfg; the liveness graph of three callers does not finish in an hour)
    safety = [dict(Callers="{1, 2, 3}", MaxMsgs=1, CapMsg=1, CapActive=2, CapComplete=2, CapOp=2, TermResponds="TRUE", SerialMod=2)]
    if thorough:
        safety.append(dict(Callers="{1, 2, 3}", MaxMsgs=2, CapMsg=1, CapActive=2, CapComplete=1, CapOp=2, TermResponds="TRUE", SerialMod=4))
    for c in safety:
        consts = dict(c); consts["Protocol"] = '"fixed2"'; consts["Identity"] = "TRUE"
        ctx.tlc("MC_Conn", cfg="MC_Conn_safety", constants=consts, workers=14, heap="10g", timeout=3000, name="MC_Conn_safety_%s" % json.dumps(c, sort_keys=True))
    # (I->S) concurrent callers against scripted terminals
    tr = os.path.join(ctx.scratch, "c12_live.ndjson")
    rc, err, events = lc.run_live(ctx, ["live-c12", 16 if thorough else 8, 12 if thorough else 5, tr], timeout=1800)
    lc.crash_check(ctx, rc, err, "live-c12")
    for e in events:
        if e["ev"] == "cmd_stranded":
            ctx.violation("caller-stranded", "SendActiveMessage(k=%s) had not returned 4 s after its time-out" % e.get("k"), {"kind": "live", "event": e})
    conns = lc.split_conns(events)
    lc.trace_conn(ctx, conns, "c12")
    # serial wrap: the stale timer of an answered request must not complete a new request with the same serial
    wr = os.path.join(ctx.scratch, "c12_wrap.ndjson")
    r = ctx.vh(["live-c12wrap", wr], timeout=300)
    lc.crash_check(ctx, r.returncode, r.stderr, "live-c12wrap")
    w = vlib.read_nd(wr, quoted=False)[0]
    ctx.cov["wrap_run"] = w
    if w["a_kind"] == "resp" and w["b_kind"] == "timeout" and w["b_ms"] > w["b_tmo_ms"] + 700:
        ctx.violation("own-timeout-lost-after-serial-wrap", "request B (time-out %d ms, never answered) was told 'time-out' only after %d ms - by the caller's last-resort deadline, "
                      "not by its writer (e.g. the stale timer of request A, answered earlier under the same platform serial, removed B's record)" % (w["b_tmo_ms"], w["b_ms"]),
                      {"kind": "live-c12wrap", "observed": w})
    elif w["a_kind"] != "resp" or w["wrap_ms"] > 2700:
        ctx.cov["wrap_run_note"] = "wrap traffic too slow to race the 3 s timer (%d ms): not judged this run" % w["wrap_ms"]
    elif w["a_seq"] != w["b_seq"]:
        ctx.cov["wrap_run_note"] = "request B was not numbered like request A after 65536 frames (numbering is C06's claim): stale-timer race not set up this run"
    elif not (w["b_kind"] == "timeout" and w["b_ms"] >= w["b_tmo_ms"] - 20):
        ctx.violation("stale-timeout-after-serial-wrap", "request B (time-out %d ms, never answered) returned '%s' after %d ms: completed by the timer "
                      "of request A, answered earlier with the same platform serial %d" % (w["b_tmo_ms"], w["b_kind"], w["b_ms"], w["a_seq"]),
                      {"kind": "live-c12wrap", "observed": w})
    ctx.note_impl("serial-wrap-stale-timer-scenario", 1)
    from checks.c01 import trace_validate
    wev = vlib.read_nd(wr, quoted=False)
    trace_validate(ctx, "Trace_WrapCmds", wr, wev, "commands-outstanding-across-the-serial-wrap", lambda inv, e: inv)
    kinds = {}
    for e in events:
        if e["ev"] == "cmd_ret":
            kinds[e["kind"]] = kinds.get(e["kind"], 0) + 1
    ctx.cov["returns_by_kind"] = kinds
    if (not kinds.get("resp") or not kinds.get("timeout")) and not ctx.viol:
        raise vlib.ToolFailure("driver produced no responses or no time-outs: %s" % kinds)
    ctx.cov["rule"] = ("MC_Conn: all interleavings of callers, manager, writer, timers and a responding terminal for the stated capacities; "
                       "OwnResponse, WrittenOnce, ResultsSane. Live: 3 concurrent callers per scripted terminal (responses prompt, late, duplicated, "
                       "with unknown serials, in reverse order, never), 7 command types, time-outs 30 ms..1.5 s, offline keys, ordinary traffic in "
                       "between; every command write, match, completion and return is stepped through Trace_Conn.")
    ctx.assumptions += ["0x1003 (matched to an arbitrary outstanding request) is outside the property's response list and not sent while commands are outstanding",
                        "time-out results are accepted between timeout-20 ms and timeout+2.5 s"]


def replay(ctx, path):
    raise vlib.ToolFailure("live scenarios are re-run, not replayed: ./check C12 (the replay file holds the recorded events)")
