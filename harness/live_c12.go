package main

// C12 / C13 drivers: concurrent SendActiveMessage callers against scripted harness terminals
// (responses in any order, late, duplicated, with unknown serials, never), and the disconnect
// scenario catalogue with scheduler gates at the hook points (spec/MC_Conn.tla interleavings).

import (
	"bytes"
	"fmt"
	"math/rand"
	"strings"
	"sync"
	"sync/atomic"
	"time"

	"github.com/cuteLittleDevil/go-jt808/service"
	"github.com/cuteLittleDevil/go-jt808/shared/consts"
)

// ---------------------------------------------------------------- gates

type gateRule struct {
	wait, until string
}

type gates struct {
	mu    sync.Mutex
	cond  *sync.Cond
	seen  map[string]bool
	rules []gateRule
	rec   *recorder
	on    atomic.Bool
}

func newGates(rec *recorder, rules []gateRule) *gates {
	g := &gates{seen: map[string]bool{}, rules: rules, rec: rec}
	g.cond = sync.NewCond(&g.mu)
	return g // armed by the scenario once the terminal has joined
}

// at: record that (c, point) happened; if a rule says so, park until its release point has happened
func (g *gates) at(c int, point string, _ []any) {
	if !g.on.Load() {
		return
	}
	key := func(c int, p string) string {
		if len(p) > 1 && p[0] == 'M' {
			c = -1
		}
		return fmt.Sprintf("%d/%s", c, p)
	}
	g.mu.Lock()
	g.seen[key(c, point)] = true
	g.cond.Broadcast()
	for _, r := range g.rules {
		if r.wait != point {
			continue
		}
		deadline := time.Now().Add(1500 * time.Millisecond)
		timer := time.AfterFunc(1500*time.Millisecond, func() { g.mu.Lock(); g.cond.Broadcast(); g.mu.Unlock() })
		for !g.seen[key(c, r.until)] && time.Now().Before(deadline) && g.on.Load() {
			g.cond.Wait()
		}
		timer.Stop()
		ok := g.seen[key(c, r.until)]
		g.mu.Unlock()
		g.rec.log(c, "G", "gate", "wait", r.wait, "until", r.until, "released", ok)
		g.mu.Lock()
	}
	g.mu.Unlock()
}

// waitSeen blocks until (c, point) has been observed (or the timeout passes)
func (g *gates) waitSeen(c int, point string, d time.Duration) bool {
	key := fmt.Sprintf("%d/%s", c, point)
	deadline := time.Now().Add(d)
	timer := time.AfterFunc(d, func() { g.mu.Lock(); g.cond.Broadcast(); g.mu.Unlock() })
	defer timer.Stop()
	g.mu.Lock()
	defer g.mu.Unlock()
	for !g.seen[key] && time.Now().Before(deadline) {
		g.cond.Wait()
	}
	return g.seen[key]
}

// ---------------------------------------------------------------- scripted terminal

type termScript struct {
	mode   string // "prompt", "late", "dup", "unknown", "never", "reverse", "mixed"
	lateMs int
}

func respFor(cmdID int) int {
	switch cmdID {
	case 0x8104, 0x8106:
		return 0x0104
	case 0x8801:
		return 0x0805
	case 0x9205:
		return 0x1205
	case 0x9206:
		return 0x1206
	}
	return 0x0001
}

func respBody(respID, seq, cmdID int) []byte {
	b := []byte{byte(seq >> 8), byte(seq)}
	switch respID {
	case 0x0001:
		return append(b, byte(cmdID>>8), byte(cmdID), 0)
	case 0x0104: // two parameters: an unconfigured APN (id 0x0010, length 0) and the heartbeat interval
		return append(b, 2, 0, 0, 0, 0x10, 0, 0, 0, 0, 0x01, 4, 0, 0, 0, 30)
	case 0x0805:
		return append(b, 0, 0, 0)
	case 0x1205:
		return append(b, 0, 0, 0, 0)
	case 0x1206:
		return append(b, 0)
	}
	return b
}

// serve answers command frames according to the script until the connection closes; it also sends
// ordinary traffic in between.  Returns when done is closed.
func (t *term) serve(r *rand.Rand, sc termScript, done <-chan struct{}) {
	var held [][2]int // (cmd, seq) waiting for the reverse-order flush
	for {
		select {
		case <-done:
			return
		case fr := <-t.recvCh:
			dv, _ := decodeView(fr)
			if !dv.Ok || dv.ID < 0x8100 || dv.ID == 0x8800 || dv.ID == 0x9212 { // replies to our own traffic
				continue
			}
			cmd, seq := dv.ID, dv.Serial
			mode := sc.mode
			if mode == "mixed" {
				mode = []string{"prompt", "late", "dup", "unknown", "never", "prompt"}[r.Intn(6)]
			}
			rid := respFor(cmd)
			if rid != 0x0001 && r.Intn(4) == 0 {
				rid = 0x0001 // a terminal may answer any command with the general response: it echoes the serial and the command id
			}
			answer := func(s int) { t.send(t.frame(rid, respBody(rid, s, cmd))) }
			if rid == 0x1205 && r.Intn(2) == 0 {
				// a resource list too long for one frame: the response comes as three sub-packages, the second one twice
				body := append(respBody(0x1205, seq, cmd)[:2], 0, 0, 0, 2)
				body = append(body, make([]byte, 56)...)
				for k := range body[6:] {
					body[6+k] = byte(k)
				}
				cut := [][]byte{body[:20], body[20:41], body[41:]}
				var frames [][]byte
				for k, no := range []int{1, 2, 2, 3} {
					_ = k
					frames = append(frames, buildFrame(hdrSpec{id: 0x1205, serial: t.nextSerial(), ver: t.ver, verbyte: 1, frag: 1, total: 3, no: no, phone: t.phone, body: cut[no-1]}))
				}
				answer = func(s int) {
					for _, f := range frames {
						t.send(f)
					}
				}
			}
			switch mode {
			case "prompt":
				answer(seq)
			case "late":
				go func() { time.Sleep(time.Duration(sc.lateMs) * time.Millisecond); answer(seq) }()
			case "dup":
				answer(seq)
				t.send(t.frame(0x0002, nil))
				answer(seq)
			case "unknown": // a response echoing a serial no outstanding command has (0 was used up by the first reply of the connection)
				if u := []int{(seq + 7) % 65536, 0, 65535, (seq + 65535) % 65536}[r.Intn(4)]; u != seq {
					answer(u)
				}
				answer(seq)
			case "reverse":
				held = append(held, [2]int{cmd, seq})
				if len(held) >= 2 {
					for i := len(held) - 1; i >= 0; i-- {
						c2, s2 := held[i][0], held[i][1]
						t.send(t.frame(respFor(c2), respBody(respFor(c2), s2, c2)))
					}
					held = nil
				}
			case "never":
			}
			if r.Intn(3) == 0 { // ordinary traffic in between is still answered normally
				t.send(t.frame(0x0200, randBytes(r, 28)))
			}
		}
	}
}

var c12Cmds = []consts.JT808CommandType{consts.P8103SetTerminalParams, consts.P8104QueryTerminalParams, consts.P8801CameraShootImmediateCommand,
	consts.P9101RealTimeAudioVideoRequest, consts.P9102AudioVideoControl, consts.P9205QueryResourceList, consts.P9206FileUploadInstructions,
	// command types the connection has no handler for: written and answered like any other
	consts.P8300TextInfoDistribution, consts.P8105TerminalControl,
	// a second command that is answered by 0x0104
	consts.P8106QuerySpecifyParam}

func init() {
	// live-c12 <terminals> <commands per caller> <trace>
	cmds["live-c12"] = func(a []string) {
		nterm, ncmd := atoi(a[0]), atoi(a[1])
		l := startLive(liveOpts{traceTo: a[2]})
		r := newRand(1212)
		done := make(chan struct{})
		var terms []*term
		modes := []string{"prompt", "mixed", "reverse", "late", "dup", "unknown", "never", "mixed"}
		for i := 0; i < nterm; i++ {
			ver := r.Intn(2)
			phone := randPhone(r, ver)
			for k := range phone { // decimal phones, distinct
				phone[k] = byte(r.Intn(10)<<4 | r.Intn(10))
			}
			phone[len(phone)-1] = byte(i/10<<4 | i%10)
			phone[0] = 0x01
			t := l.dial(phone, ver)
			t.send(t.frame(0x0002, nil)) // join
			t.waitRecv(1, 5*time.Second)
			<-t.recvCh
			terms = append(terms, t)
			go t.serve(rand.New(rand.NewSource(r.Int63())), termScript{mode: modes[i%len(modes)], lateMs: 40 + r.Intn(200)}, done)
		}
		var wg sync.WaitGroup
		var kid atomic.Int64
		// nobody parks a writer in this phase: a command that was written is completed by its writer - response, or time-out on
		// time (within 700 ms) - and not by the caller's own last-resort deadline a second later
		l.slackMs.Store(700)
		for ti, t := range terms {
			for c := 0; c < 3; c++ { // three concurrent callers per terminal
				wg.Add(1)
				go func(t *term, ti int, seed int64) {
					defer wg.Done()
					rr := rand.New(rand.NewSource(seed))
					key := string(asciiDigits(t.phone))
					for i := 0; i < ncmd; i++ {
						k := int(kid.Add(1))
						cmd := c12Cmds[rr.Intn(len(c12Cmds))]
						tmo := time.Duration([]int{30, 80, 200, 600, 1500}[rr.Intn(5)]) * time.Millisecond
						if modes[ti%len(modes)] == "prompt" && rr.Intn(5) == 0 {
							tmo = 0 // the default time-out (the terminal answers at once)
						}
						if rr.Intn(12) == 0 {
							l.sendActive(t.idx, k, key+"9", cmd, randBytes(rr, rr.Intn(20)), tmo) // offline key: not-exist at once
							continue
						}
						body := randBytes(rr, rr.Intn(40))
						if rr.Intn(6) == 0 { // runs of the bytes that are escaped on the wire
							body = append(body, 0x7e, 0x7e, 0x7d, 0x7d, 0x7e, 0x7d, 0x02, 0x7d, 0x01)
						}
						l.sendActive(t.idx, k, key, cmd, body, tmo)
						if rr.Intn(3) == 0 {
							time.Sleep(time.Duration(rr.Intn(20)) * time.Millisecond)
						}
					}
				}(t, ti, r.Int63())
			}
		}
		wg.Wait()
		l.slackMs.Store(0)
		// more time-outs than the completion queue holds expire while the writer is held in a write callback:
		// every caller still gets its time-out
		{
			t := terms[6%len(terms)] // with 8 or more terminals: the one that never answers
			key := string(asciiDigits(t.phone))
			var hw sync.WaitGroup
			for i := 0; i < 5; i++ {
				hw.Add(1)
				go func() {
					defer hw.Done()
					l.sendActive(t.idx, int(kid.Add(1)), key, consts.P9003QueryTerminalAudioVideoProperties, nil, 250*time.Millisecond)
				}()
				time.Sleep(3 * time.Millisecond)
			}
			held := make(chan struct{})
			var once atomic.Bool
			hold := func(c int) {
				if c == t.idx && !once.Swap(true) {
					select {
					case <-held:
					case <-time.After(700 * time.Millisecond):
					}
				}
			}
			l.writeHold.Store(&hold)
			t.send(t.frame(0x0002, nil))
			hw.Wait()
			close(held)
			l.writeHold.Store(nil)
		}
		close(done)
		time.Sleep(300 * time.Millisecond) // late duplicate responses drain
		// --- the terminals' scripted responders have stopped; two more scenarios are driven by hand
		nextCmd := func(t *term, id int, d time.Duration) (int, bool) { // the serial of the next command frame with that id
			dl := time.After(d)
			for {
				select {
				case fr := <-t.recvCh:
					if dv, _ := decodeView(fr); dv.Ok && dv.ID == id {
						return dv.Serial, true
					}
				case <-dl:
					return 0, false
				}
			}
		}
		// (a) 0x9003 is answered by 0x1003, which echoes no serial: with one command outstanding the caller gets it; with nothing
		// outstanding the same message is ordinary traffic and gets its general reply
		{
			t := terms[0]
			key := string(asciiDigits(t.phone))
			attrs := []byte{1, 2, 3, 4, 0, 160, 1, 98, 2, 4}
			resCh := make(chan cmdResult, 1)
			k := int(kid.Add(1))
			go func() {
				resCh <- l.sendActive(t.idx, k, key, consts.P9003QueryTerminalAudioVideoProperties, nil, 2*time.Second)
			}()
			if _, ok := nextCmd(t, 0x9003, 3*time.Second); ok {
				t.send(t.frame(0x1003, attrs))
			}
			<-resCh
			time.Sleep(20 * time.Millisecond)
			t.send(t.frame(0x1003, attrs))
			time.Sleep(50 * time.Millisecond)
		}
		// (a2) while a terminal is online another connection presents its phone, with a registration (then an authentication) as its
		// first message: it is refused like any duplicate, and when it has gone the terminal that was there first is still reached
		for round, first := range []int{0x0100, 0x0102} {
			t := terms[0]
			key := string(asciiDigits(t.phone))
			imp := l.dial(t.phone, t.ver)
			body := append(make([]byte, 25+8), []byte("A12345")...)
			if first == 0x0102 {
				body = asciiDigits(t.phone)
				if t.ver == 1 {
					body = append(append([]byte{byte(len(body))}, body...), make([]byte, 35)...)
				}
			}
			imp.send(imp.frame(first, body))
			imp.waitRecv(1, 100*time.Millisecond)
			imp.close(round == 1)
			time.Sleep(80 * time.Millisecond)
			resCh := make(chan cmdResult, 1)
			k := int(kid.Add(1))
			go func() {
				resCh <- l.sendActive(t.idx, k, key, consts.P8104QueryTerminalParams, nil, 2*time.Second)
			}()
			if ser, ok := nextCmd(t, 0x8104, 3*time.Second); ok {
				t.send(t.frame(0x0104, respBody(0x0104, ser, 0x8104)))
			}
			res := <-resCh
			l.rec.log(t.idx, "D", "assert", "ok", res.Kind == "resp", "what", "TerminalUnreachableAfterARefusedDuplicateLeft", "kind", res.Kind)
		}
		// (a4) two 0x9003 queries outstanding, the terminal sends one 0x1003: one caller gets it, the other its time-out
		{
			t := terms[0]
			key := string(asciiDigits(t.phone))
			attrs := []byte{1, 2, 3, 4, 0, 160, 1, 98, 2, 4}
			resCh := make(chan cmdResult, 2)
			for i := 0; i < 2; i++ {
				k := int(kid.Add(1))
				go func() {
					resCh <- l.sendActive(t.idx, k, key, consts.P9003QueryTerminalAudioVideoProperties, nil, 400*time.Millisecond)
				}()
			}
			_, ok1 := nextCmd(t, 0x9003, 2*time.Second)
			_, ok2 := nextCmd(t, 0x9003, 2*time.Second)
			if ok1 && ok2 {
				t.send(t.frame(0x1003, attrs))
			}
			r1, r2 := <-resCh, <-resCh
			got := map[string]int{r1.Kind: 1}
			got[r2.Kind]++
			l.rec.log(t.idx, "D", "assert", "ok", !(ok1 && ok2) || (got["resp"] == 1 && got["timeout"] == 1), "what", "OneResponseGivenToTwoCallers", "kinds", r1.Kind+","+r2.Kind)
			time.Sleep(50 * time.Millisecond)
		}
		// (a5) an application that keeps one request object and sends it to one terminal after another (only the key changes):
		// each terminal gets the command under its own phone number
		if len(terms) >= 2 {
			am := service.NewActiveMessage("", consts.P8104QueryTerminalParams, nil, time.Second)
			for _, t := range []*term{terms[0], terms[1], terms[0]} {
				am.Key = string(asciiDigits(t.phone))
				resCh := make(chan cmdResult, 1)
				k := int(kid.Add(1))
				go func() { resCh <- l.sendActiveAM(t.idx, k, am) }()
				okAddr := false
				dl := time.After(2 * time.Second)
			waitAddr:
				for {
					select {
					case fr := <-t.recvCh:
						if dv, _ := decodeView(fr); dv.Ok && dv.ID == 0x8104 {
							okAddr = bytes.Equal(bytes.TrimLeft(dv.Digits, "\x00"), bytes.TrimLeft(digitsOf(string(asciiDigits(t.phone))), "\x00"))
							t.send(t.frame(0x0104, respBody(0x0104, dv.Serial, 0x8104)))
							break waitAddr
						}
					case <-dl:
						break waitAddr
					}
				}
				res := <-resCh
				l.rec.log(t.idx, "D", "assert", "ok", okAddr && res.Kind == "resp", "what", "ReusedRequestSentUnderAnotherTerminalsNumber", "kind", res.Kind)
			}
		}
		// (a6) two commands outstanding whose platform serials are 64 (and 128, 256) apart - 63 heartbeats are answered in between:
		// both callers get their own response
		for _, gap := range []int{64, 128, 256} {
			t := terms[0]
			key := string(asciiDigits(t.phone))
			resA, resB := make(chan cmdResult, 1), make(chan cmdResult, 1)
			ka, kb := int(kid.Add(1)), int(kid.Add(1))
			go func() {
				resA <- l.sendActiveAM(t.idx, ka, service.NewActiveMessage(key, consts.P8104QueryTerminalParams, nil, 4*time.Second))
			}()
			serA, okA := nextCmd(t, 0x8104, 3*time.Second)
			base := t.nrecv.Load()
			for i := 0; i < gap-1; i++ {
				t.send(t.frame(0x0002, nil))
			}
			t.waitRecv(base+int64(gap-1), 5*time.Second)
			for len(t.recvCh) > 0 {
				<-t.recvCh
			}
			go func() {
				resB <- l.sendActiveAM(t.idx, kb, service.NewActiveMessage(key, consts.P8104QueryTerminalParams, nil, 4*time.Second))
			}()
			serB, okB := nextCmd(t, 0x8104, 3*time.Second)
			if okB {
				t.send(t.frame(0x0104, respBody(0x0104, serB, 0x8104)))
			}
			if okA {
				t.send(t.frame(0x0104, respBody(0x0104, serA, 0x8104)))
			}
			ra, rb := <-resA, <-resB
			l.rec.log(t.idx, "D", "assert", "ok", ra.Kind == "resp" && rb.Kind == "resp" && (serB-serA+65536)%65536 == gap, "what", "OutstandingCommandsSerialsApart", "gap", (serB-serA+65536)%65536, "kinds", ra.Kind+","+rb.Kind)
		}
		// (a3) a caller without a time-out whose terminal takes longer than any default time-out (3.4 s): it gets the response
		{
			t := terms[0]
			key := string(asciiDigits(t.phone))
			resCh := make(chan cmdResult, 1)
			k := int(kid.Add(1))
			go func() {
				resCh <- l.sendActive(t.idx, k, key, consts.P8104QueryTerminalParams, nil, -time.Millisecond)
			}()
			if ser, ok := nextCmd(t, 0x8104, 3*time.Second); ok {
				time.Sleep(3400 * time.Millisecond)
				t.send(t.frame(0x0104, respBody(0x0104, ser, 0x8104)))
			}
			res := <-resCh
			l.rec.log(t.idx, "D", "assert", "ok", res.Kind == "resp", "what", "CallerWithoutATimeOutDidNotGetTheLateResponse", "kind", res.Kind, "ms", res.Ms)
		}
		// (b) completions for callers that have left: the writer of terminal t is parked (by the clock) for longer than two callers
		// wait; when it wakes it still writes their commands and their time-outs expire - results nobody waits for.  Meanwhile
		// callers of another terminal are waiting: each of them gets the result of its own command only
		if len(terms) >= 3 {
			t, u := terms[1], terms[2]
			tkey, ukey := string(asciiDigits(t.phone)), string(asciiDigits(u.phone))
			var once atomic.Bool
			hold := func(c int) {
				if c == t.idx && !once.Swap(true) {
					time.Sleep(1200 * time.Millisecond)
				}
			}
			l.writeHold.Store(&hold)
			t.send(t.frame(0x0002, nil))
			time.Sleep(10 * time.Millisecond)
			var wg sync.WaitGroup
			for i := 0; i < 2; i++ {
				wg.Add(1)
				k := int(kid.Add(1))
				go func() {
					defer wg.Done()
					l.sendActive(t.idx, k, tkey, consts.P8104QueryTerminalParams, nil, 50*time.Millisecond)
				}()
			}
			wg.Wait() // both gave up at about 1.05 s; the writer wakes at 1.2 s, writes the two commands, their timers fire at 1.25 s
			var ug sync.WaitGroup
			const waiting = 80 // many callers waiting at once (whatever is pooled or recycled per call is in use by someone else now)
			for i := 0; i < waiting; i++ {
				ug.Add(1)
				k := int(kid.Add(1))
				go func() {
					defer ug.Done()
					l.sendActive(u.idx, k, ukey, consts.P8104QueryTerminalParams, nil, 2*time.Second)
				}()
				time.Sleep(400 * time.Microsecond)
			}
			var sers []int
			for i := 0; i < waiting; i++ {
				if ser, ok := nextCmd(u, 0x8104, 300*time.Millisecond); ok {
					sers = append(sers, ser)
				} else {
					break // some were refused (queue full): fewer command frames than callers
				}
			}
			time.Sleep(300 * time.Millisecond) // the stale completions of t happen now
			for _, ser := range sers {
				u.send(u.frame(0x0104, respBody(0x0104, ser, 0x8104)))
			}
			ug.Wait()
			l.writeHold.Store(nil)
			time.Sleep(100 * time.Millisecond)
		}
		for _, t := range terms {
			// sentinel heartbeat: its reply closes the conversation
			ser := 0
			func() {
				f := t.frame(0x0002, nil)
				ser = t.serial
				t.send(f)
			}()
			dl := time.After(10 * time.Second)
			ok := false
		wait:
			for {
				select {
				case fr := <-t.recvCh:
					dv, _ := decodeView(fr)
					if dv.Ok && dv.ID == 0x8001 && len(dv.Body) == 5 && int(dv.Body[0])<<8|int(dv.Body[1]) == ser {
						ok = true
						break wait
					}
				case <-dl:
					break wait
				}
			}
			time.Sleep(30 * time.Millisecond)
			if ok {
				l.rec.log(t.idx, "D", "end")
			} else {
				l.rec.log(t.idx, "D", "sentinel_timeout")
			}
			t.close(false)
		}
		time.Sleep(100 * time.Millisecond)
		l.dump(a[2])
	}

	// live-c13 <rounds> <trace>: the disconnect catalogue; every SendActiveMessage must return by timeout + slack
	cmds["live-c13"] = func(a []string) {
		rounds := atoi(a[0])
		l := startLive(liveOpts{traceTo: a[1]})
		r := newRand(1313)
		scen := []struct {
			name  string
			rules []gateRule
		}{
			{"close-with-command-outstanding", nil},
			{"close-with-commands-queued", nil},
			{"close-with-commands-queued-behind-a-held-writer", nil},
			{"callers-give-up-while-their-commands-wait-behind-a-held-writer", nil},
			{"writer-holds-command-while-reader-tears-down", []gateRule{{"W.active.recorded", "S.chansClosed"}}},
			{"timer-between-check-and-send-at-teardown", []gateRule{{"T.checked", "S.chansClosed"}}},
			{"command-routed-just-before-leave", []gateRule{{"W.top", "S.stopClosed"}}},
			{"response-matched-while-reader-tears-down", []gateRule{{"W.resp.match", "S.chansClosed"}}},
			{"command-sent-after-the-writer-exited-while-the-reader-is-still-in-stop", []gateRule{{"S.connClosed", "M.route.after"}}},
			{"timeouts-expire-while-the-writer-is-held-in-a-callback", nil},
			{"timeouts-of-different-lengths-in-adverse-order", nil},
			{"burst-in-one-segment-then-reset", nil},
			{"messages-then-a-close-arrive-while-the-writer-is-held-and-callers-without-a-time-out-wait", nil},
			{"a-duplicate-is-refused-then-a-command-for-the-terminal-that-was-there-first", nil},
			{"burst-then-a-damaged-frame", nil},
			{"close-before-join", nil},
			{"close-mid-frame", nil},
			{"random-storm", nil},
		}
		var kid atomic.Int64
		var stranded atomic.Int64
		call := func(t *term, key string, tmo time.Duration, wg *sync.WaitGroup) {
			wg.Add(1)
			k := int(kid.Add(1))
			go func() {
				defer wg.Done()
				doneCh := make(chan struct{})
				go func() {
					l.sendActive(t.idx, k, key, consts.P8104QueryTerminalParams, nil, tmo)
					close(doneCh)
				}()
				select {
				case <-doneCh:
				case <-time.After(tmo + 3*time.Second):
					stranded.Add(1)
					l.rec.log(t.idx, "K", "cmd_stranded", "k", k, "tmo", int(tmo/time.Millisecond))
				}
			}()
		}
		for round := 0; round < rounds; round++ {
			for si, sc := range scen {
				var g *gates
				if sc.rules != nil {
					g = newGates(l.rec, sc.rules)
					f := g.at
					l.gate.Store(&f)
				} else {
					l.gate.Store(nil)
				}
				phone := []byte{0x01, 0x39, byte(round), byte(si), byte(r.Intn(100)), byte(r.Intn(100))}
				for k := range phone {
					phone[k] = phone[k]%10 | (phone[k]/10%10)<<4
				}
				t := l.dial(phone, 0)
				key := string(asciiDigits(phone))
				l.rec.log(t.idx, "D", "scenario", "name", sc.name)
				var wg sync.WaitGroup
				join := func() {
					t.send(t.frame(0x0002, nil))
					t.waitRecv(1, 5*time.Second)
					if g != nil {
						g.on.Store(true)
					}
				}
				switch sc.name {
				case "close-with-command-outstanding":
					join()
					call(t, key, 400*time.Millisecond, &wg)
					t.waitRecv(2, 2*time.Second) // the command frame arrived
					t.close(r.Intn(2) == 0)
				case "close-with-commands-queued":
					join()
					for i := 0; i < 3; i++ {
						call(t, key, 300*time.Millisecond, &wg)
					}
					time.Sleep(time.Duration(r.Intn(400)) * time.Microsecond)
					t.close(true)
				case "close-with-commands-queued-behind-a-held-writer":
					// the writer is parked in a write callback while three commands queue up (none written); the terminal resets;
					// the released writer finds the stop signal and must answer every queued command at once
					join()
					held := make(chan struct{})
					var once atomic.Bool
					hold := func(c int) {
						if c == t.idx && !once.Swap(true) {
							select {
							case <-held:
							case <-time.After(700 * time.Millisecond):
							}
						}
					}
					l.writeHold.Store(&hold)
					t.send(t.frame(0x0002, nil))
					time.Sleep(10 * time.Millisecond)
					for i := 0; i < 3; i++ {
						call(t, key, 300*time.Millisecond, &wg)
					}
					time.Sleep(10 * time.Millisecond)
					t.close(true)
					time.Sleep(40 * time.Millisecond)
					close(held)
					wg.Wait()
					l.writeHold.Store(nil)
				case "callers-give-up-while-their-commands-wait-behind-a-held-writer":
					// the writer is parked for longer than the callers are willing to wait (time-out 50 ms + 1 s): they return by their
					// own deadline; the released writer then still finds the commands in its queue and must cope with callers that left
					join()
					var once atomic.Bool
					hold := func(c int) {
						if c == t.idx && !once.Swap(true) {
							// released by the clock, not by the scenario: a release that waits for the callers would order the
							// writer's next steps after theirs and hide unsynchronised accesses from the race detector (C18)
							time.Sleep(1150 * time.Millisecond)
						}
					}
					l.writeHold.Store(&hold)
					t.send(t.frame(0x0002, nil))
					time.Sleep(10 * time.Millisecond)
					for i := 0; i < 3; i++ {
						call(t, key, 50*time.Millisecond, &wg)
					}
					wg.Wait()                          // all three gave up (about 1.05 s)
					time.Sleep(300 * time.Millisecond) // the writer wakes and works through the stale queue: writes, time-outs, nobody listening
					l.writeHold.Store(nil)
					t.close(false)
				case "writer-holds-command-while-reader-tears-down", "command-routed-just-before-leave":
					join()
					call(t, key, 300*time.Millisecond, &wg)
					time.Sleep(2 * time.Millisecond)
					t.close(true)
				case "timer-between-check-and-send-at-teardown":
					join()
					call(t, key, 40*time.Millisecond, &wg)
					t.waitRecv(2, 2*time.Second)
					time.Sleep(20 * time.Millisecond)
					t.close(true)
				case "response-matched-while-reader-tears-down":
					join()
					call(t, key, 500*time.Millisecond, &wg)
					if t.waitRecv(2, 2*time.Second) {
						<-t.recvCh
						fr := <-t.recvCh
						dv, _ := decodeView(fr)
						t.send(t.frame(0x0104, respBody(0x0104, dv.Serial, 0x8104)))
					}
					t.close(false)
				case "command-sent-after-the-writer-exited-while-the-reader-is-still-in-stop":
					// the reader is parked inside stop() after it closed the socket; once the writer has exited a
					// command is sent: it must be answered (not-exist, or failed by the teardown), never queued on a dead connection
					join()
					t.close(false)
					if g.waitSeen(t.idx, "W.exit", 1200*time.Millisecond) {
						call(t, key, 200*time.Millisecond, &wg)
					}
				case "timeouts-expire-while-the-writer-is-held-in-a-callback":
					join()
					for i := 0; i < 5; i++ { // five outstanding commands, 250 ms each, never answered
						call(t, key, 250*time.Millisecond, &wg)
						time.Sleep(3 * time.Millisecond)
					}
					held := make(chan struct{})
					var once atomic.Bool
					hold := func(c int) {
						if c == t.idx && !once.Swap(true) { // only the first write callback parks the writer
							select {
							case <-held:
							case <-time.After(700 * time.Millisecond):
							}
						}
					}
					l.writeHold.Store(&hold)
					t.send(t.frame(0x0002, nil)) // its write callback parks the writer while all five time-outs expire
					wg.Wait()
					close(held)
					l.writeHold.Store(nil)
					t.close(false)
				case "timeouts-of-different-lengths-in-adverse-order":
					// nobody parks the writer here: each caller gets its time-out at its own deadline (slack 600 ms),
					// whatever the order in which the commands were written
					join()
					l.slackMs.Store(600)
					for _, ms := range []int{1500, 150, 600, 150} {
						call(t, key, time.Duration(ms)*time.Millisecond, &wg)
						time.Sleep(5 * time.Millisecond)
					}
					wg.Wait()
					l.slackMs.Store(0)
					t.close(false)
				case "burst-in-one-segment-then-reset":
					// the reader is still working through a batch it read in one piece while the writer's replies start to fail
					join()
					var burst []byte
					for i := 0; i < 60; i++ {
						burst = append(burst, t.frame([]int{0x0002, 0x0200, 0x0002}[i%3], randBytes(r, 28)[:28*(i%3%2)])...)
					}
					t.send(burst)
					time.Sleep(time.Duration(r.Intn(800)) * time.Microsecond)
					t.close(true)
				case "messages-then-a-close-arrive-while-the-writer-is-held-and-callers-without-a-time-out-wait":
					// two commands are outstanding for callers that wait without a time-out; the writer is parked (by the clock) in a write
					// callback while a batch of messages and then the end of the connection arrive. When it wakes both its inbox and the
					// stop signal are ready, in whatever order it takes them: the callers are told that the connection has gone
					for rep := 0; rep < 4; rep++ {
						if rep > 0 {
							ph := append([]byte{}, phone...)
							ph[1] = byte(0x40 + rep)
							t = l.dial(ph, 0)
							key = string(asciiDigits(ph))
							l.rec.log(t.idx, "D", "scenario", "name", sc.name)
						}
						t.send(t.frame(0x0002, nil))
						t.waitRecv(1, 2*time.Second)
						call(t, key, -time.Millisecond, &wg)
						call(t, key, -time.Millisecond, &wg)
						t.waitRecv(3, 2*time.Second)
						var once atomic.Bool
						tt := t
						hold := func(c int) {
							if c == tt.idx && !once.Swap(true) {
								time.Sleep(120 * time.Millisecond)
							}
						}
						l.writeHold.Store(&hold)
						t.send(t.frame(0x0002, nil))
						time.Sleep(10 * time.Millisecond)
						var batch []byte
						for i := 0; i < 6; i++ {
							batch = append(batch, t.frame(0x0002, nil)...)
						}
						t.send(batch)
						time.Sleep(10 * time.Millisecond)
						t.close(false)
						wg.Wait()
						l.writeHold.Store(nil)
					}
				case "a-duplicate-is-refused-then-a-command-for-the-terminal-that-was-there-first":
					// a second connection presents the key (a heartbeat as its first message) and is refused; callers of the key - with
					// and without a time-out - still reach the terminal that holds it
					join()
					d := l.dial(phone, 0)
					l.rec.log(d.idx, "D", "scenario", "name", sc.name)
					d.send(d.frame(0x0002, nil))
					d.waitRecv(1, 30*time.Millisecond)
					d.close(false)
					time.Sleep(60 * time.Millisecond)
					for len(t.recvCh) > 0 {
						<-t.recvCh
					}
					call(t, key, -time.Millisecond, &wg)
					call(t, key, 800*time.Millisecond, &wg)
					for answered := 0; answered < 2; {
						select {
						case fr := <-t.recvCh:
							if dv, _ := decodeView(fr); dv.Ok && dv.ID == 0x8104 {
								t.send(t.frame(0x0104, respBody(0x0104, dv.Serial, 0x8104)))
								answered++
							}
						case <-time.After(1500 * time.Millisecond):
							answered = 2
						}
					}
					wg.Wait()
					t.close(false)
				case "burst-then-a-damaged-frame":
					// valid frames in one segment, a frame with a wrong check code in the next one a moment later: the reader gives the
					// connection up while the writer is still answering what it was handed
					for rep := 0; rep < 6; rep++ {
						if rep > 0 {
							ph := append([]byte{}, phone...)
							ph[1] = byte(0x50 + rep)
							t = l.dial(ph, 0)
							l.rec.log(t.idx, "D", "scenario", "name", sc.name)
						}
						t.send(t.frame(0x0002, nil))
						t.waitRecv(1, 2*time.Second)
						var burst []byte
						for i := 0; i < 12; i++ {
							burst = append(burst, t.frame([]int{0x0002, 0x0200}[i%2], randBytes(r, 28)[:28*(i%2)])...)
						}
						bad := t.frame(0x0002, nil)
						bad[len(bad)-2] ^= 0x01
						if bad[len(bad)-2] == 0x7e || bad[len(bad)-2] == 0x7d {
							bad[len(bad)-2] ^= 0x03
						}
						t.send(burst)
						time.Sleep(time.Duration(r.Intn(300)) * time.Microsecond)
						t.send(bad)
						time.Sleep(30 * time.Millisecond)
						t.close(false)
					}
				case "close-before-join":
					call(t, key, 100*time.Millisecond, &wg)
					t.close(r.Intn(2) == 0)
				case "close-mid-frame":
					f := t.frame(0x0200, randBytes(r, 30))
					t.send(f[:len(f)/2])
					call(t, key, 100*time.Millisecond, &wg)
					t.close(false)
				case "random-storm":
					join()
					n := r.Intn(5)
					for i := 0; i < n; i++ {
						call(t, key, time.Duration(20+r.Intn(200))*time.Millisecond, &wg)
						if r.Intn(2) == 0 {
							time.Sleep(time.Duration(r.Intn(3000)) * time.Microsecond)
						}
					}
					time.Sleep(time.Duration(r.Intn(60)) * time.Millisecond)
					t.close(r.Intn(2) == 0)
				}
				wg.Wait()
				if g != nil {
					g.on.Store(false)
					g.mu.Lock()
					g.cond.Broadcast()
					g.mu.Unlock()
				}
				l.gate.Store(nil)
				l.rec.log(t.idx, "D", "scenario_end", "name", sc.name)
			}
		}
		// the server must still serve: a fresh terminal gets its heartbeat answered
		t := l.dial([]byte{0x01, 0x38, 0x88, 0x88, 0x88, 0x88}, 0)
		t.send(t.frame(0x0002, nil))
		alive := t.waitRecv(1, 5*time.Second)
		l.rec.log(t.idx, "D", "canary", "alive", alive, "stranded", int(stranded.Load()))
		t.close(false)
		time.Sleep(50 * time.Millisecond)
		l.dump(a[1])
	}
}

func init() {
	// live-c13key <trace>: the server runs with WithKeyFunc and one terminal's key is the empty string (a legal key). After each
	// terminal has gone (EOF or reset) callers of its key - without a time-out, and with one - are told at once that it is not there
	cmds["live-c13key"] = func(a []string) {
		// (keys are what the application says they are: here the empty string, one or two digits, or - for phones whose fifth byte is
		// 0x5x - a string with upper-case letters)
		keyOf := func(ph []byte) string {
			k := strings.TrimLeft(fmt.Sprintf("%02x", ph[4]), "0")
			if ph[4]>>4 == 5 {
				k = "Vehicle-" + strings.ToUpper(k)
			}
			return k
		}
		l := startLive(liveOpts{traceTo: a[0], handlers: func() map[consts.JT808CommandType]service.Handler {
			// a large custom handler table (every message type wrapped)
			m := map[consts.JT808CommandType]service.Handler{}
			for id, mk := range modelHandlers() {
				m[id] = &parseAll{mk()}
			}
			return m
		}, keyFunc: func(m *service.Message) (string, bool) {
			d := m.JTMessage.Header.TerminalPhoneNo
			for len(d) < 12 {
				d = "0" + d
			}
			if d[10:12] == "98" && m.JTMessage.Header.ID != 0x0102 { // registered by its authentication only
				return "", false
			}
			if d[8] == '5' {
				return "Vehicle-" + strings.ToUpper(strings.TrimLeft(d[8:10], "0")), true
			}
			return strings.TrimLeft(d[8:10], "0"), true
		}})
		kid := 0
		for round := 0; round < 6; round++ {
			ph := []byte{0x01, 0x36, 0x00, 0x00, []byte{0x00, 0x07, 0x5a, 0x00, 0x5a, 0x07}[round], byte(round)}
			key := keyOf(ph)
			t := l.dial(ph, 0)
			t.send(t.frame(0x0002, nil))
			joined := t.waitRecv(1, 3*time.Second)
			// while it is there a command reaches it
			kid++
			resCh := make(chan cmdResult, 1)
			go func(k int) { resCh <- l.sendActive(t.idx, k, key, consts.P8104QueryTerminalParams, nil, time.Second) }(kid)
			deadline := time.After(2 * time.Second)
		answer:
			for {
				select {
				case fr := <-t.recvCh:
					if dv, _ := decodeView(fr); dv.Ok && dv.ID == 0x8104 {
						t.send(t.frame(0x0104, respBody(0x0104, dv.Serial, 0x8104)))
						break answer
					}
				case <-deadline:
					break answer
				}
			}
			res := <-resCh
			l.rec.log(t.idx, "D", "assert", "ok", joined && res.Kind == "resp", "what", "CommandToAnOnlineKeyNotAnswered", "key", key, "kind", res.Kind)
			// three more commands are on their way when the terminal goes (the writer is still working them off)
			var qw sync.WaitGroup
			for i := 0; i < 3; i++ {
				kid++
				qw.Add(1)
				go func(k int) {
					defer qw.Done()
					l.sendActive(t.idx, k, key, consts.P8104QueryTerminalParams, nil, 300*time.Millisecond)
				}(kid)
			}
			time.Sleep(time.Duration(round) * 300 * time.Microsecond)
			t.close(round >= 3)
			qw.Wait()
			l.waitLeft(t.idx, 5*time.Second) // (teardown is asynchronous: the key is free once the leave callback has run)
			time.Sleep(50 * time.Millisecond)
			var wg sync.WaitGroup
			for i, tmo := range []time.Duration{-1, -1, 400 * time.Millisecond, -1, -1} {
				kid++
				wg.Add(1)
				go func(k, i int, tmo time.Duration) {
					defer wg.Done()
					r := l.sendActive(t.idx, k, key, consts.P8104QueryTerminalParams, nil, tmo)
					l.rec.log(t.idx, "D", "assert", "ok", r.Kind == "notexist" && r.Ms < 400, "what", "CallerOfADepartedKeyNotToldAtOnce", "key", key, "kind", r.Kind, "ms", r.Ms, "tmo", int(tmo/time.Millisecond))
				}(kid, i, tmo)
			}
			wg.Wait()
		}
		// registration and authentication in one write, then an immediate reset: the reply to the first fails (the connection has
		// no key yet) while the reader is about to join with the second. When the connection has gone its key is gone too
		for i := 0; i < 10; i++ {
			ph := []byte{0x01, 0x36, 0x00, 0x00, byte(0x20 + i%3), 0x98}
			key := keyOf(ph)
			t := l.dial(ph, 0)
			reg := append(make([]byte, 25+8), []byte("A12345")...)
			t.send(append(t.frame(0x0100, reg), t.frame(0x0102, asciiDigits(ph))...))
			if i%2 == 1 {
				time.Sleep(time.Duration(i*60) * time.Microsecond)
			}
			t.close(true)
			l.waitLeft(t.idx, 400*time.Millisecond) // (if it joined at all)
			time.Sleep(100 * time.Millisecond)
			var wg sync.WaitGroup
			for j := 0; j < 2; j++ {
				kid++
				wg.Add(1)
				go func(k int) {
					defer wg.Done()
					r := l.sendActive(t.idx, k, key, consts.P8104QueryTerminalParams, nil, -time.Millisecond)
					l.rec.log(t.idx, "D", "assert", "ok", r.Kind == "notexist" && r.Ms < 400, "what", "CallerOfADepartedKeyNotToldAtOnce", "key", key, "kind", r.Kind, "ms", r.Ms, "tmo", -1)
				}(kid)
			}
			wg.Wait()
		}
		// a storm of calls for keys that are not there, while connections come and go (the manager's queue holds ten operations):
		// every caller is told at once
		{
			var wg sync.WaitGroup
			stopJoin := make(chan struct{})
			go func() {
				for i := 0; ; i++ {
					select {
					case <-stopJoin:
						return
					default:
					}
					ph := []byte{0x01, 0x36, 0x00, 0x00, byte(0x40 + i%5), byte(i % 90)}
					t := l.dial(ph, 0)
					t.send(t.frame(0x0002, nil))
					t.waitRecv(1, 20*time.Millisecond)
					t.close(i%2 == 0)
				}
			}()
			for i := 0; i < 80; i++ {
				kid++
				wg.Add(1)
				go func(k, i int) {
					defer wg.Done()
					tmo := time.Duration(-1) * time.Millisecond
					if i%3 == 0 {
						tmo = 300 * time.Millisecond
					}
					r := l.sendActive(-1, k, fmt.Sprintf("absent%d", i%7), consts.P8104QueryTerminalParams, nil, tmo)
					l.rec.log(1, "D", "assert", "ok", r.Kind == "notexist" && r.Ms < 1000, "what", "CallerOfADepartedKeyNotToldAtOnce", "key", "absent", "kind", r.Kind, "ms", r.Ms, "tmo", int(tmo/time.Millisecond))
				}(kid, i)
			}
			wg.Wait()
			close(stopJoin)
			time.Sleep(100 * time.Millisecond)
		}
		time.Sleep(100 * time.Millisecond)
		l.dump(a[0])
	}
}

func init() {
	// live-c13wrap <out>: request A (time-out 3 s) is answered at once; 65535 replies later request B - from a caller without a
	// time-out - is written under A's platform serial; A's timer fires (a stale completion for that serial); the terminal never
	// answers B and finally leaves: B's caller is told so
	cmds["live-c13wrap"] = func(a []string) {
		l := startLive(liveOpts{})
		phone := []byte{0x01, 0x37, 0x00, 0x00, 0x00, 0x09}
		t := l.dial(phone, 0)
		key := string(asciiDigits(phone))
		t.send(t.frame(0x0002, nil))
		t.waitRecv(1, 5*time.Second)
		<-t.recvCh
		resA := make(chan cmdResult, 1)
		go func() { resA <- l.sendActive(t.idx, 1, key, consts.P8104QueryTerminalParams, nil, 3*time.Second) }()
		fr := <-t.recvCh
		dv, _ := decodeView(fr)
		t0 := time.Now()
		t.send(t.frame(0x0104, respBody(0x0104, dv.Serial, 0x8104)))
		ra := <-resA
		for i := 0; i < 65535; i++ {
			t.send(t.frame(0x0002, nil))
			if i%2000 == 1999 {
				t.waitRecv(int64(i+2), 20*time.Second)
			}
		}
		t.waitRecv(65537, 30*time.Second)
		wrapMs := time.Since(t0).Milliseconds()
		resB := make(chan cmdResult, 1)
		go func() { resB <- l.sendActive(t.idx, 2, key, consts.P8104QueryTerminalParams, nil, -time.Millisecond) }()
		if d := 3400*time.Millisecond - time.Since(t0); d > 0 {
			time.Sleep(d) // A's timer has fired by now
		}
		time.Sleep(200 * time.Millisecond)
		closedAt := time.Now()
		t.close(false)
		rb := <-resB // (sendActive's own watchdog reports a call that never returns as "stranded" after 7 s)
		out := newND(a[0])
		out.put(map[string]any{"a_kind": ra.Kind, "a_seq": dv.Serial, "wrap_ms": wrapMs, "b_kind": rb.Kind, "b_seq": rb.PlatSeq, "b_after_close_ms": time.Since(closedAt).Milliseconds()})
		out.close()
	}
}

func init() {
	// live-c12wrap <trace>: a time-out goroutine that outlives its answered request must not complete a
	// later request that reuses the platform serial after the 16-bit wrap (MC_Conn!OwnTimeout)
	cmds["live-c12wrap"] = func(a []string) {
		l := startLive(liveOpts{})
		phone := []byte{0x01, 0x37, 0x00, 0x00, 0x00, 0x07}
		t := l.dial(phone, 0)
		key := string(asciiDigits(phone))
		t.send(t.frame(0x0002, nil))
		t.waitRecv(1, 5*time.Second)
		<-t.recvCh
		// request A (time-out 3 s), answered at once
		resA := make(chan cmdResult, 1)
		go func() { resA <- l.sendActive(t.idx, 1, key, consts.P8104QueryTerminalParams, nil, 3*time.Second) }()
		fr := <-t.recvCh
		dv, _ := decodeView(fr)
		t0 := time.Now()
		t.send(t.frame(0x0104, respBody(0x0104, dv.Serial, 0x8104)))
		ra := <-resA
		// 65535 heartbeats: the platform serial comes round to A's again
		for i := 0; i < 65535; i++ {
			t.send(t.frame(0x0002, nil))
			if i%2000 == 1999 {
				t.waitRecv(int64(i+2), 20*time.Second)
			}
		}
		t.waitRecv(65537, 30*time.Second)
		wrapMs := time.Since(t0).Milliseconds()
		// request B (time-out 6 s), never answered
		rb := l.sendActive(t.idx, 2, key, consts.P8104QueryTerminalParams, nil, 6*time.Second)
		out := newND(a[0])
		out.put(map[string]any{"a_kind": ra.Kind, "a_seq": dv.Serial, "wrap_ms": wrapMs, "b_kind": rb.Kind, "b_ms": rb.Ms, "b_seq": rb.PlatSeq, "b_tmo_ms": 6000})
		t.close(false)
		// four commands outstanding at once while the platform serial passes 65535 -> 0: each is written with its own serial
		// and every caller gets the response that echoes it
		phone2 := []byte{0x01, 0x37, 0x00, 0x00, 0x00, 0x08}
		u := l.dial(phone2, 0)
		key2 := string(asciiDigits(phone2))
		for i := 0; i < 65534; i++ {
			u.send(u.frame(0x0002, nil))
			if i%2000 == 1999 {
				u.waitRecv(int64(i+1), 20*time.Second)
			}
		}
		u.waitRecv(65534, 30*time.Second)
		for len(u.recvCh) > 0 {
			<-u.recvCh
		}
		type one struct {
			Seq  int    `json:"seq"`
			Kind string `json:"kind"`
			Echo int    `json:"echo"`
		}
		res := make(chan one, 4)
		for k := 0; k < 4; k++ {
			go func(k int) {
				r := l.sendActive(u.idx, 10+k, key2, consts.P8104QueryTerminalParams, nil, 4*time.Second)
				res <- one{r.PlatSeq, r.Kind, r.Echo}
			}(k)
		}
		var written []int
		for k := 0; k < 4; k++ {
			select {
			case fr := <-u.recvCh:
				d, _ := decodeView(fr)
				written = append(written, d.Serial)
			case <-time.After(3 * time.Second):
			}
		}
		for _, ser := range written { // answered after all four are outstanding
			u.send(u.frame(0x0104, respBody(0x0104, ser, 0x8104)))
		}
		cmds4 := []one{}
		for k := 0; k < 4; k++ {
			cmds4 = append(cmds4, <-res)
		}
		if written == nil {
			written = []int{}
		}
		out.put(map[string]any{"ev": "wrapcmds", "first": 65534, "written": written, "cmds": cmds4})
		out.close()
		u.close(false)
	}
}

func init() {
	// live-c14 <out>: five sub-packaged transfers go idle for more than 5 s (real time); the next inbound data must
	// produce one 0x8003 per transfer, naming the first packet's serial and exactly the missing numbers - also when
	// the writer is busy and more re-requests are pending than its queue holds
	cmds["live-c14"] = func(a []string) {
		l := startLive(liveOpts{})
		// meanwhile, on a second connection: the first packet of a transfer is the connection's very first frame (it joins the
		// terminal), and a platform command is sent to the terminal before the transfer goes idle; the re-request is unaffected
		second := make(chan map[string]any, 1)
		go func() {
			ph := []byte{0x01, 0x29, 0x00, 0x00, 0x00, 0x15}
			u := l.dial(ph, 0)
			u.serial = 700
			first := u.nextSerial()
			u.send(buildFrame(hdrSpec{id: 0x0801, serial: first, frag: 1, total: 4, no: 1, phone: ph, body: make([]byte, 36)}))
			u.send(buildFrame(hdrSpec{id: 0x0801, serial: u.nextSerial(), frag: 1, total: 4, no: 3, phone: ph, body: []byte{3}}))
			time.Sleep(100 * time.Millisecond)
			l.sendActive(u.idx, 9001, string(asciiDigits(ph)), consts.P8104QueryTerminalParams, nil, 200*time.Millisecond) // never answered
			time.Sleep(5300 * time.Millisecond)
			for len(u.recvCh) > 0 {
				<-u.recvCh
			}
			before := u.nrecv.Load()
			u.send(u.frame(0x0002, nil))
			u.waitRecv(before+2, 10*time.Second)
			time.Sleep(200 * time.Millisecond)
			frames := []B{}
			for len(u.recvCh) > 0 {
				frames = append(frames, <-u.recvCh)
			}
			u.close(false)
			second <- map[string]any{"firsts": []int{first}, "missing": [][]int{{2, 4}}, "frames": frames}
		}()
		phone := []byte{0x01, 0x29, 0x00, 0x00, 0x00, 0x14}
		t := l.dial(phone, 0)
		t.send(t.frame(0x0002, nil))
		t.waitRecv(1, 5*time.Second)
		ids := []int{0x0801, 0x0704, 0x0200, 0x0104, 0x1205}
		var firsts []int
		for i, id := range ids {
			total := 3 + i%2
			s := t.nextSerial()
			firsts = append(firsts, s)
			t.send(buildFrame(hdrSpec{id: id, serial: s, frag: 1, total: total, no: 1, phone: phone, body: []byte{1, 2, 3, byte(i)}}))
			if i%2 == 1 { // one more packet for some transfers: the missing set differs per transfer
				t.send(buildFrame(hdrSpec{id: id, serial: t.nextSerial(), frag: 1, total: total, no: 3, phone: phone, body: []byte{7, 7}}))
			}
		}
		time.Sleep(5300 * time.Millisecond)
		for len(t.recvCh) > 0 {
			<-t.recvCh
		}
		held := make(chan struct{})
		var once atomic.Bool
		hold := func(c int) {
			if c == t.idx && !once.Swap(true) {
				select {
				case <-held:
				case <-time.After(400 * time.Millisecond):
				}
			}
		}
		l.writeHold.Store(&hold)
		before := t.nrecv.Load()
		t.send(t.frame(0x0002, nil)) // the next inbound data
		t.waitRecv(before+6, 10*time.Second)
		close(held)
		l.writeHold.Store(nil)
		time.Sleep(200 * time.Millisecond)
		var frames []B
		for len(t.recvCh) > 0 {
			frames = append(frames, <-t.recvCh)
		}
		if frames == nil {
			frames = []B{}
		}
		missing := [][]int{}
		for i := range ids {
			if i%2 == 1 {
				missing = append(missing, []int{2, 4})
			} else {
				missing = append(missing, []int{2, 3})
			}
		}
		out := newND(a[0])
		out.put(map[string]any{"firsts": firsts, "missing": missing, "frames": frames})
		out.put(<-second)
		out.close()
		t.close(false)
	}
}

func init() {
	// live-c13stall <out>: a terminal that never reads.  Commands with kilobyte bodies are sent to it until its writer is stuck
	// in Write (the reader stays idle: the terminal sends nothing but its first heartbeat).  Three commands written early have
	// time-outs that expire during the stall, commands without a time-out queue up behind the stuck writer, one more than the
	// queue holds.  Then the terminal half-closes (variant "eof") or resets (variant "reset").  Observed: the manager keeps
	// serving another terminal, every caller returns, and soon after the connection ended.
	cmds["live-c13stall"] = func(a []string) {
		l := startLive(liveOpts{})
		out := newND(a[0])
		defer out.close()
		hp := []byte{0x01, 0x31, 0x00, 0x00, 0x07, 0x01}
		h := l.dial(hp, 0)
		hkey := string(asciiDigits(hp))
		h.send(h.frame(0x0002, nil))
		h.waitRecv(1, 5*time.Second)
		for len(h.recvCh) > 0 {
			<-h.recvCh
		}
		type res struct {
			Name string `json:"name"`
			Kind string `json:"kind"`
			Ms   int64  `json:"ms"`   // since the call
			Late int64  `json:"late"` // since the connection ended (-1: returned before)
			Tmo  int    `json:"tmo"`
		}
		kid := 0
		for vi, variant := range []string{"eof", "reset"} {
			report := map[string]any{"ev": "stall", "variant": variant, "stalled": false, "manager_ok": false, "all_returned": false, "calls": 0, "results": []res{}}
			finished := make(chan struct{})
			go func() {
				defer close(finished)
				sp := []byte{0x01, 0x31, 0x00, 0x00, 0x07, byte(2 + vi)}
				t := l.dialWith(sp, 0, true)
				key := string(asciiDigits(sp))
				var progress atomic.Int64
				l.muted.Store(t.idx, &progress)
				t.conn.Write(t.frame(0x0002, nil)) // joins; nothing else is ever sent, nothing is ever read
				time.Sleep(60 * time.Millisecond)
				var mu sync.Mutex
				var results []res
				var endedAt atomic.Int64
				t0 := time.Now()
				var wg sync.WaitGroup
				calls := 0
				call := func(name string, c int, k string, tmo time.Duration, body []byte) {
					kid++
					calls++
					id := kid
					wg.Add(1)
					go func() {
						defer wg.Done()
						r := l.sendActive(c, id, k, consts.P8103SetTerminalParams, body, tmo)
						late := int64(-1)
						if e := endedAt.Load(); e > 0 {
							late = time.Since(t0).Milliseconds() - e
						}
						tm := int(tmo / time.Millisecond)
						if tmo < 0 {
							tm = -1
						}
						mu.Lock()
						results = append(results, res{name, r.Kind, r.Ms, late, tm})
						mu.Unlock()
					}()
				}
				// 1. three commands written at once, time-out 2.5 s: they expire while the writer is stuck
				for i := 0; i < 3; i++ {
					call("written-before-the-stall", t.idx, key, 2500*time.Millisecond, nil)
				}
				time.Sleep(20 * time.Millisecond)
				// 2. kilobyte commands with a 5 ms time-out, one after the other, until one does not come back in time: the writer is stuck
				big := bytes.Repeat([]byte{0x55}, 1000)
				var stalledFlag atomic.Bool
				var sent atomic.Int64
				fill := map[string]int{}
				var fmu sync.Mutex
				var fw sync.WaitGroup
				base := kid
				kid += 12000
				for w := 0; w < 3; w++ { // three callers at a time: as many as the terminal's queue holds
					fw.Add(1)
					go func(w int) {
						defer fw.Done()
						for !stalledFlag.Load() {
							n := sent.Add(1)
							if n > 12000 {
								return
							}
							r := l.sendActive(t.idx, base+int(n), key, consts.P8103SetTerminalParams, big, time.Millisecond)
							fmu.Lock()
							fill[r.Kind]++
							fmu.Unlock()
							if r.Ms >= 700 {
								stalledFlag.Store(true)
							}
						}
					}(w)
				}
				fw.Wait()
				stalled := stalledFlag.Load()
				report["stalled"] = stalled
				report["fill"] = fill
				// 3. a command with the default time-out (OverTimeDuration 0: 3 s) and commands without a time-out queue up behind the
				// stuck writer; the queue holds three, the others do not fit
				call("default-timeout-queued", t.idx, key, 0, nil)
				defaultCalledAt := time.Since(t0)
				time.Sleep(5 * time.Millisecond)
				for i := 0; i < 4; i++ {
					call("no-timeout-queued", t.idx, key, -1, nil)
					time.Sleep(5 * time.Millisecond)
				}
				time.Sleep(100 * time.Millisecond)
				// 4. the manager still serves the healthy terminal
				probe := make(chan cmdResult, 1)
				kid++
				pk := kid
				go func() {
					probe <- l.sendActive(h.idx, pk, hkey, consts.P8104QueryTerminalParams, nil, 1500*time.Millisecond)
				}()
				before := h.nrecv.Load()
				if h.waitRecv(before+1, 3*time.Second) {
					var fr []byte
					for len(h.recvCh) > 0 {
						fr = <-h.recvCh
					}
					dv, _ := decodeView(fr)
					h.send(h.frame(0x0104, respBody(0x0104, dv.Serial, 0x8104)))
					select {
					case r := <-probe:
						report["manager_ok"] = r.Kind == "resp"
					case <-time.After(3 * time.Second):
					}
				}
				// 5. wait until the three early time-outs have expired inside the stall, then end the connection
				// (... and the default time-out of the queued command, 3 s + 1 s after its call: it comes back by its own deadline while
				// the writer is still stuck)
				if d := defaultCalledAt + 5200*time.Millisecond - time.Since(t0); d > 0 {
					time.Sleep(d)
				}
				endedAt.Store(time.Since(t0).Milliseconds())
				if variant == "eof" {
					t.conn.CloseWrite() // and still nothing is read: only the server's own teardown can free the writer
				} else {
					t.conn.SetLinger(0)
					t.conn.Close()
				}
				done := make(chan struct{})
				go func() { wg.Wait(); close(done) }()
				select {
				case <-done:
					report["all_returned"] = true
				case <-time.After(6 * time.Second):
				}
				mu.Lock()
				report["results"] = append([]res{}, results...)
				report["calls"] = calls
				mu.Unlock()
				t.conn.Close()
			}()
			select {
			case <-finished:
			case <-time.After(40 * time.Second):
				report["hung"] = true // the scenario itself could not proceed (e.g. the manager is wedged): reported as it stands
			}
			out.put(report)
		}
		h.close(false)
	}
}
