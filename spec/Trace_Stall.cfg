INIT Init
NEXT Next
INVARIANTS ManagerServes EveryCallReturns CallsReturnAsSpecified AtMostOneBusy
CHECK_DEADLOCK FALSE
