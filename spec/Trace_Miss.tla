------------------------------ MODULE Trace_Miss ------------------------------
(* C16, implementation -> specification: range reports computed by the real   *)
(* Package.StatisticalMissSegments for seeded random large chunk sets (up to  *)
(* 255 and more gaps, sizes to a few thousand bytes), judged by the           *)
(* declarative MissExact.                                                      *)
EXTENDS Attach, Json, IOUtils
Trace == ndJsonDeserialize(IOEnv.VERIF_TRACE)
VARIABLE l
Init == l = 0
Next == l = 0 /\ l' \in 1..Len(Trace)
E == Trace[l]
Got == [o \in {E.chunks[i].off : i \in 1..Len(E.chunks)} |->
          (CHOOSE i \in 1..Len(E.chunks) : E.chunks[i].off = o)]
GotLen == [o \in DOMAIN Got |-> E.chunks[Got[o]].len]
ReportExact == l = 0 \/ MissExact(E.segs, GotLen, E.size)
ReportIsSpec == l = 0 \/ Mat(E.segs) = Mat(MissSegments(GotLen, E.size))
=============================================================================
