package main

// Adapter for spec/Path.tla (C19): one complete real upload session per announced name, default
// file handler, in a sandbox working directory with decoys; the file tree is the observation.

import (
	"bytes"
	"crypto/sha1"
	"fmt"
	"io/fs"
	"os"
	"path/filepath"
	"strings"

	"github.com/cuteLittleDevil/go-jt808/attachment"
)

type pathCase struct {
	Name  B      `json:"name"`
	Class string `json:"class"`
	Up    int    `json:"up"`
	Path  []B    `json:"path"`
}

type pathEvent struct {
	Name     B      `json:"name"`
	Phone    B      `json:"phone"`
	Written  [][]B  `json:"written"`
	Uploaded bool   `json:"uploaded"`
	Stored   bool   `json:"stored"`
	Panic    string `json:"panic,omitempty"`
}

func snapshot(root string) map[string]string {
	m := map[string]string{}
	filepath.WalkDir(root, func(p string, d fs.DirEntry, err error) error {
		if err != nil || d.IsDir() {
			return nil
		}
		b, _ := os.ReadFile(p)
		m[p] = fmt.Sprintf("%x", sha1.Sum(b))
		return nil
	})
	return m
}

const sandboxPhone = "13800000001"

// runPathSession announces `name`, uploads 3 bytes when the name fits a chunk header, and closes.
// decoy: path (segments below the walked root) pre-created so that an escaping write would modify it.
func runPathSession(name []byte, up int, rpath []B) pathEvent {
	ev := pathEvent{Name: name, Phone: B(sandboxPhone)}
	root, err := os.MkdirTemp("", "verif_c19_")
	if err != nil {
		die(err)
	}
	defer os.RemoveAll(root)
	depth := 6
	cwd := root
	for i := 0; i < depth; i++ {
		cwd = filepath.Join(cwd, fmt.Sprintf("l%d", i))
	}
	phoneDir := filepath.Join(cwd, sandboxPhone)
	if bytes.IndexByte(name, '/') >= 0 { // sub-directories a multi-segment name may traverse (not for plain names)
		os.MkdirAll(filepath.Join(phoneDir, "a"), 0o755)
		os.MkdirAll(filepath.Join(phoneDir, "b c"), 0o755)
	}
	// directories a name may traverse outside the terminal's directory, and decoy files
	for _, d := range []string{cwd, filepath.Dir(cwd), filepath.Dir(filepath.Dir(cwd))} {
		os.MkdirAll(filepath.Join(d, "a"), 0o755)
		os.MkdirAll(filepath.Join(d, "b c"), 0o755)
		os.MkdirAll(filepath.Join(d, sandboxPhone+"x"), 0o755) // sibling whose name starts with the phone
		for _, n := range []string{"x", "a/a", "a/b c", "b c/a", sandboxPhone + "x/a"} {
			os.WriteFile(filepath.Join(d, n), []byte("decoy"), 0o644)
		}
	}
	blocked := false
	if bytes.IndexByte(name, '/') < 0 && (len(name)+up)%7 == 3 {
		// where the terminal's directory would be there is a regular file of that name: nothing can be stored for this terminal,
		// and nothing is stored anywhere else instead
		os.RemoveAll(phoneDir)
		os.WriteFile(phoneDir, []byte("not a directory"), 0o644)
		blocked = true
	}
	old, _ := os.Getwd()
	if err := os.Chdir(cwd); err != nil {
		die(err)
	}
	defer os.Chdir(old)
	before := snapshot(root)

	content := []byte{0xA1, 0xA2, 0xA3}
	phone := []byte{0x01, 0x38, 0x00, 0x00, 0x00, 0x01}
	ser := 0
	ctl := func(id int, body []byte) []byte {
		ser++
		return buildFrame(hdrSpec{id: id, serial: ser, phone: phone, body: body})
	}
	r := newRand(19)
	first := body1210("JS", r, []aFile{{name, content}})
	// the same text in every peer-chosen text field of the announcement: terminal id (7 bytes), the alarm sign's terminal id
	// (7 bytes) and the 32-byte alarm id - none of them may steer where files go
	copy(first[0:7], pad(name, 7))
	copy(first[7:14], pad(name, 7))
	copy(first[23:55], pad(name, 32))
	units := [][]byte{ctl(0x1210, first)}
	if up%2 == 1 || len(name)%3 == 0 {
		// a second announcement on the same connection, with an ordinary name (whatever was noted for the first stays in force)
		units = append(units, ctl(0x1210, body1210("JS", r, []aFile{{[]byte("second.bin"), []byte{1, 2}}})))
	}
	if (len(name)+up)%3 != 0 { // (0x1211 announces the start of a file; a terminal may go straight to the data)
		units = append(units, ctl(0x1211, body1211(name, 0, 3)))
	}
	if len(name) <= 50 && len(name) > 0 && name[0] != 0 && name[len(name)-1] != 0 {
		units = append(units, chunkBytes("JS", name, 0, content))
		ev.Uploaded = !blocked // (with a file in the directory's place nothing can be stored: only confinement is judged)
	}
	units = append(units, ctl(0x1212, body1211(name, 0, 3)))
	conn := &scriptConn{segs: units}
	ev.Panic = protect(func() { attachment.VerifServe(conn, dialectOf("JS"), attachment.VerifDefaultFileEventer()) })
	// whatever links the session left behind are followed up by the same terminal: a later session uploads a file under the
	// link's own name (a write through a link that points out of the directory is a write outside)
	var links []string
	filepath.WalkDir(root, func(p string, d fs.DirEntry, err error) error {
		if err == nil && d.Type()&fs.ModeSymlink != 0 {
			if _, was := before[p]; !was {
				links = append(links, filepath.Base(p))
			}
		}
		return nil
	})
	for _, ln := range links {
		if len(ln) > 50 {
			continue
		}
		u2 := [][]byte{ctl(0x1210, body1210("JS", r, []aFile{{[]byte(ln), content}})), ctl(0x1211, body1211([]byte(ln), 0, 3)),
			chunkBytes("JS", []byte(ln), 0, content), ctl(0x1212, body1211([]byte(ln), 0, 3))}
		if p2 := protect(func() {
			attachment.VerifServe(&scriptConn{segs: u2}, dialectOf("JS"), attachment.VerifDefaultFileEventer())
		}); p2 != "" && ev.Panic == "" {
			ev.Panic = p2
		}
	}

	after := snapshot(root)
	for p, h := range after {
		if before[p] != h {
			rel, _ := filepath.Rel(cwd, p)
			var segs []B
			for _, s := range strings.Split(rel, string(filepath.Separator)) {
				segs = append(segs, B(s))
			}
			ev.Written = append(ev.Written, segs)
		}
	}
	if ev.Written == nil {
		ev.Written = [][]B{}
	}
	if got, err := os.ReadFile(filepath.Join(phoneDir, string(name))); err == nil && bytes.Equal(got, content) {
		ev.Stored = true
	}
	return ev
}

func pad(b []byte, n int) []byte {
	out := make([]byte, n)
	copy(out, b)
	return out
}

func confinedGo(segs []B) bool { // harness-side mirror used only to build signatures/details
	var st []string
	for _, s := range segs {
		switch string(s) {
		case "", ".":
		case "..":
			if len(st) == 0 {
				return false
			}
			st = st[:len(st)-1]
		default:
			st = append(st, string(s))
		}
	}
	return len(st) >= 2 && st[0] == sandboxPhone
}

func init() {
	cmds["c19-replay"] = func(a []string) {
		os.Stdout, _ = os.Open(os.DevNull)
		out := newND(a[1])
		defer out.close()
		n := 0
		classes := map[string]int{}
		var samples []any
		err := readND(a[0], func(i int, raw []byte) error {
			var c pathCase
			if err := jsonUnmarshal(raw, &c); err != nil {
				return err
			}
			if len(c.Name) > 255 {
				return nil
			}
			n++
			classes[c.Class]++
			ev := runPathSession(c.Name, c.Up, c.Path)
			if len(samples) < 3 && c.Class == "escaping" {
				samples = append(samples, map[string]any{"name": string(c.Name), "class": c.Class, "written": ev.Written})
			}
			if ev.Panic != "" {
				out.put(mismatch{"session-panic class=" + c.Class, ev.Panic, c})
				return nil
			}
			for _, w := range ev.Written {
				if len(w) == 1 && string(w[0]) == "file.log" {
					continue
				}
				if !confinedGo(w) {
					var parts []string
					for _, s := range w {
						parts = append(parts, string(s))
					}
					out.put(mismatch{"written-outside-terminal-directory class=" + c.Class,
						fmt.Sprintf("name %q -> wrote %s", string(c.Name), strings.Join(parts, "/")), c})
					return nil
				}
			}
			if c.Class == "plain" && ev.Uploaded && !ev.Stored {
				out.put(mismatch{"plain-name-not-stored", fmt.Sprintf("name %q", string(c.Name)), c})
			}
			return nil
		})
		if err != nil {
			die(err)
		}
		out.put(summary{Summary: true, Cases: n, Distinct: n, Classes: classes, Samples: samples})
	}

	cmds["c19-gen"] = func(a []string) {
		os.Stdout, _ = os.Open(os.DevNull)
		n := atoi(a[0])
		out := newND(a[1])
		defer out.close()
		r := newRand(1919)
		alpha := []byte{'.', '.', '/', '/', 'a', 'x', ' ', 0, 0xff, '\\', '~', '-', 'b', 0x7e}
		for i := 0; i < n; i++ {
			ln := 1 + r.Intn(12)
			if r.Intn(6) == 0 {
				ln = 40 + r.Intn(216)
			}
			name := make([]byte, ln)
			for k := range name {
				name[k] = alpha[r.Intn(len(alpha))]
			}
			switch r.Intn(5) {
			case 0:
				name = append([]byte("../"), name...)
			case 1:
				name = append([]byte("/"), name...)
			case 2:
				name = []byte(fmt.Sprintf("f%d.jpg", i))
			case 3:
				name = []byte(fmt.Sprintf("../%s%s", sandboxPhone, []string{".txt", "_bak/x", "x/a", "x"}[r.Intn(4)]))
			}
			if len(name) > 255 {
				name = name[:255]
			}
			out.put(runPathSession(name, 0, nil))
		}
		// names whose last element is as long as a file name may be (243..255 bytes, with and without directories in front):
		// whatever the handler does with a path it finds too long, nothing lands outside the terminal's directory
		for ln := 243; ln <= 255; ln++ {
			out.put(runPathSession(bytes.Repeat([]byte{'k'}, ln), 0, nil))
			if ln%4 == 3 {
				out.put(runPathSession(append([]byte("../"), bytes.Repeat([]byte{'k'}, ln-3)...), 0, nil))
			}
		}
	}
}
