INIT Init
NEXT Next
CONSTANTS
  NA = 3
  NB = 0
  MaxSteps = 7
  MaxDup = 1
  MaxBad = 1
  MaxRestart = 1
  MaxPlain = 1
  Ticks = {4900, 5200, 55000}
  Record = TRUE
  Ver = 0
INVARIANTS DeliveredExact AtLastPacket NoEarly IgnoreBad OneMsgPerFrame ExactMissing ReReqSpacing MustReRequest ExpiredNeverDelivered Emit
CHECK_DEADLOCK FALSE
