---------------------------- MODULE Trace_BigUpload ----------------------------
(* C15 / C16 for files of tens and hundreds of kilobytes (chunks of 64 KiB and   *)
(* more, lengths beyond 16 bits).  The byte-level session specification is too  *)
(* heavy for such inputs, so a session is summarised by the harness: which       *)
(* chunks arrived before the first 0x1212, what the 0x9212 on the wire asked     *)
(* for, what was resent, what the second 0x9212 said, and whether the stored     *)
(* file has the announced length and bytes.  The ranges are decided here         *)
(* (Attach!MissIntervals, shown equal to MissSegments by MC_Miss).               *)
EXTENDS Attach, Json, IOUtils
Trace == ndJsonDeserialize(IOEnv.VERIF_TRACE)
VARIABLE l
Init == l = 0
Next == l = 0 /\ l' \in 1..Len(Trace)
E == Trace[l]
Plain(ss) == Mat([i \in 1..Len(ss) |-> [off |-> ss[i].off, len |-> ss[i].len]])
Want == Mat(MissIntervals(Plain(E.chunks), E.size))
NoCrash == l = 0 \/ (E.panic = "" /\ E.quit # "Panic")
FirstReport == l = 0 \/ (E.result1 = (IF Want = <<>> THEN 0 ELSE 1) /\ Plain(E.report) = Want)
ResentWasListed == l = 0 \/ Plain(E.resent) = Want                      \* (the harness resends exactly the specification's ranges)
FinalComplete == l = 0 \/ (E.result2 = 0 /\ E.nreport2 = 0)
ContentExact == l = 0 \/ (E.completed /\ E.contentok /\ E.storedlen = E.size)
=============================================================================
