INIT Init
NEXT Next
CONSTANTS
  MaxSegs = 4
INVARIANTS ClassSane Emit
CHECK_DEADLOCK FALSE
