package main

// C09 driver: every *Message handed to the read callback is retained with a snapshot and re-read
// after later traffic and after the connection closed; the writer is held before it answers a
// message until the reader has completed further reads (TLC scenario "reader ahead of writer").

import (
	"bytes"
	"math/rand"
	"sync"
	"time"

	"github.com/cuteLittleDevil/go-jt808/service"
	"github.com/cuteLittleDevil/go-jt808/shared/consts"
)

type kept struct {
	m                     *service.Message
	body, raw             []byte
	id, serial, total, no int
	phone                 string
	cmd                   int
}

type keeper struct {
	mu    sync.Mutex
	byC   map[int][]*kept
	reads map[int]int // read callbacks seen per connection
	cond  *sync.Cond
}

func (k *keeper) keep(c int, m *service.Message) {
	h := m.JTMessage.Header
	k.mu.Lock()
	k.byC[c] = append(k.byC[c], &kept{m: m, body: append([]byte{}, m.JTMessage.Body...), raw: append([]byte{}, m.ExtensionFields.TerminalData...),
		id: int(h.ID), serial: int(h.SerialNumber), total: int(h.SubPackageSum), no: int(h.SubPackageNo), phone: h.TerminalPhoneNo, cmd: int(m.Command)})
	k.reads[c]++ // (join / unsupported callbacks are counted too: the writer is only ever released earlier)
	k.cond.Broadcast()
	k.mu.Unlock()
}

func (k *keeper) recheck(l *live, c int, when string) {
	k.mu.Lock()
	ks := append([]*kept{}, k.byC[c]...)
	k.mu.Unlock()
	for i, e := range ks {
		h := e.m.JTMessage.Header
		field := ""
		switch {
		case !bytes.Equal(e.m.JTMessage.Body, e.body):
			field = "body"
		case !bytes.Equal(e.m.ExtensionFields.TerminalData, e.raw):
			field = "raw"
		case int(h.ID) != e.id:
			field = "id"
		case h.TerminalPhoneNo != e.phone:
			field = "phone"
		case int(h.SerialNumber) != e.serial:
			field = "serial"
		case int(h.SubPackageSum) != e.total || int(h.SubPackageNo) != e.no:
			field = "package"
		case int(e.m.Command) != e.cmd:
			field = "command"
		}
		l.rec.log(c, "H", "recheck", "i", i, "when", when, "same", field == "", "field", field, "msgid", e.id, "msgserial", e.serial)
	}
}

// stalledTransfer: a transfer that stalls for more than 5 s (real time): its first part was handed to the join callback;
// the re-request the server then builds (a numbered platform message like any other), and the completion afterwards,
// must leave that message as delivered
func stalledTransfer(l *live, kp *keeper) {
	recheck := func(t *term, when string) {
		if kp != nil {
			kp.recheck(l, t.idx, when)
		}
	}
	phone := []byte{0x01, 0x30, 0x00, 0x00, 0x08, 0x01}
	t := l.dial(phone, 0)
	part := func(no int) {
		b := make([]byte, 30)
		for k := range b {
			b[k] = byte(0x30 + no*4 + k)
		}
		t.send(buildFrame(hdrSpec{id: 0x0801, serial: t.nextSerial(), frag: 1, total: 3, no: no, phone: phone, body: b}))
	}
	t.send(t.frame(0x0002, nil)) // platform serial 0 is used up before the re-request
	part(1)
	time.Sleep(5300 * time.Millisecond)
	l.rec.log(t.idx, "D", "tick", "ms", 5300)
	before := t.nrecv.Load()
	t.send(t.frame(0x0002, nil))
	t.waitRecv(before+2, 10*time.Second) // the heartbeat's reply and the 0x8003
	recheck(t, "after-re-request")
	t.send(t.frame(0x0002, nil))
	part(2)
	part(3)
	t.waitRecv(before+4, 10*time.Second) // the 0x8800 for the completed message
	recheck(t, "after-late-completion")
	time.Sleep(30 * time.Millisecond)
	l.rec.log(t.idx, "D", "end")
	t.close(false)
	time.Sleep(50 * time.Millisecond)
	recheck(t, "after-close")
}

func init() {
	// live-c09 <connections> <messages> <trace>
	cmds["live-c09"] = func(a []string) {
		nconn, nmsg := atoi(a[0]), atoi(a[1])
		l := startLive(liveOpts{traceTo: a[2], noFilter: len(a) > 3 && a[3] == "nofilter"})
		kp := &keeper{byC: map[int][]*kept{}, reads: map[int]int{}}
		kp.cond = sync.NewCond(&kp.mu)
		l.readHold = func(c int, m *service.Message) { kp.keep(c, m) }
		// hold the writer before it computes a reply until the reader is `ahead` read callbacks further (bounded wait)
		replies := map[int]int{}
		var rmu sync.Mutex
		l.replyHold = func(c int, serial int) {
			rmu.Lock()
			replies[c]++
			n := replies[c]
			rmu.Unlock()
			ahead := 1 + n%3
			deadline := time.Now().Add(30 * time.Millisecond)
			t := time.AfterFunc(30*time.Millisecond, func() { kp.mu.Lock(); kp.cond.Broadcast(); kp.mu.Unlock() })
			kp.mu.Lock()
			for kp.reads[c] < n+ahead && time.Now().Before(deadline) {
				kp.cond.Wait()
			}
			kp.mu.Unlock()
			t.Stop()
		}
		r := newRand(909)
		var wg sync.WaitGroup
		if !l.noFilter {
			wg.Add(1)
			go func() {
				defer wg.Done()
				stalledTransfer(l, kp)
			}()
		}
		for c := 0; c < nconn; c++ {
			ver := c % 2
			phone := randPhone(r, ver)
			for k := range phone {
				phone[k] = byte(r.Intn(10)<<4 | r.Intn(10))
			}
			phone[len(phone)-1] = byte(c/10<<4 | c%10)
			t := l.dial(phone, ver)
			wg.Add(1)
			go func(t *term, seed int64) {
				defer wg.Done()
				rr := rand.New(rand.NewSource(seed))
				for i := 0; i < nmsg; i++ {
					// escape-free bodies (fast path slices of the read buffer) and escaped ones, of varying length
					n := 1 + rr.Intn(60)
					body := make([]byte, n)
					for k := range body {
						body[k] = byte(0x10 + (i*7+k)%0x60)
					}
					if rr.Intn(3) == 0 {
						body[rr.Intn(n)] = 0x7e
					}
					id := []int{0x0200, 0x0704, 0x0801, 0x1005}[rr.Intn(4)]
					if id == 0x0801 { // (the multimedia id at the head of the body is this terminal's own: the 0x8800 reply echoes it)
						body = append([]byte{0xC9, byte(t.idx), byte(i >> 8), byte(i)}, append(body, make([]byte, 36)...)...)
					}
					if rr.Intn(6) == 0 { // a terminal that does not advance its serial number: same serial, other bytes
						t.smu.Lock()
						t.serial = (t.serial + 65535) % 65536
						t.smu.Unlock()
						if rr.Intn(2) == 0 {
							id = 0x0801
							body = append(randBytes(rr, 8), make([]byte, 28+rr.Intn(20))...)
						}
					}
					if rr.Intn(8) == 0 {
						// two pictures that differ in their multimedia id only (same size, same type, format, event and channel)
						pic := append(make([]byte, 36), randBytes(rr, 10+rr.Intn(20))...)
						for k := 0; k < 2; k++ {
							pk := append([]byte{}, pic...)
							copy(pk, []byte{0xD0 + byte(k), byte(t.idx), byte(i >> 8), byte(i)})
							t.send(t.frame(0x0801, pk))
						}
					}
					switch rr.Intn(7) {
					case 6: // a frame whose header names another phone or uses the other header version (a forwarder's connection)
						oh := hdrSpec{id: id, serial: t.nextSerial(), ver: t.ver, verbyte: 1, phone: t.phone, body: body}
						if rr.Intn(2) == 0 { // ... also when it is a registration or an authentication
							oh.id = []int{0x0100, 0x0102}[rr.Intn(2)]
							oh.body = append(make([]byte, 25+8), []byte("A12345")...)
							if oh.id == 0x0102 {
								oh.body = append([]byte{6}, append([]byte("123456"), make([]byte, 35)...)...)
							}
						}
						if rr.Intn(2) == 0 {
							oh.ver = 1 - t.ver
							oh.phone = randPhone(rr, oh.ver)
						} else {
							oh.phone = randPhone(rr, t.ver)
						}
						t.send(buildFrame(oh))
					case 5: // the first packet of a transfer shares its read with the next message; the transfer completes in later reads
						mk := func(no int) []byte {
							b := make([]byte, 24+no)
							for k := range b {
								b[k] = byte(no*0x11 + k)
							}
							return buildFrame(hdrSpec{id: 0x0801, serial: t.nextSerial(), ver: t.ver, verbyte: 1, frag: 1, total: 3, no: no, phone: t.phone, body: b})
						}
						p1 := mk(1)
						t.send(append(p1, t.frame(id, body)...))
						time.Sleep(400 * time.Microsecond)
						t.send(mk(2))
						time.Sleep(300 * time.Microsecond)
						t.send(mk(3))
					case 0: // two frames in one write (buffered path)
						f := t.frame(id, body)
						t.send(append(f, t.frame(0x0002, nil)...))
					case 1: // a sub-packaged message, each packet in its own write
						for no := 1; no <= 3; no++ {
							b := make([]byte, 20+no)
							for k := range b {
								b[k] = byte(no*0x10 + k)
							}
							t.send(buildFrame(hdrSpec{id: 0x0801, serial: t.nextSerial(), ver: t.ver, verbyte: 1, frag: 1, total: 3, no: no, phone: t.phone, body: b}))
							time.Sleep(300 * time.Microsecond)
						}
					case 2: // a read that starts at a different offset: lone delimiter first
						f := t.frame(id, body)
						t.send(f[:1])
						time.Sleep(300 * time.Microsecond)
						t.send(f[1:])
					default:
						t.send(t.frame(id, body))
					}
					time.Sleep(time.Duration(rr.Intn(400)) * time.Microsecond)
					if i%8 == 7 {
						kp.recheck(l, t.idx, "during")
					}
				}
				// a platform command after all that traffic must still be addressed to this terminal
				done := make(chan struct{})
				go func() {
					l.sendActive(t.idx, 100000+t.idx, string(asciiDigits(t.phone)), consts.P8104QueryTerminalParams, nil, 300*time.Millisecond)
					close(done)
				}()
				// every other terminal answers it (a general response): the answer was handed to the read callback like any message and
				// stays what it was when the server matches it with the pending request
				if t.idx%2 == 0 {
					dl := time.After(250 * time.Millisecond)
				answer:
					for {
						select {
						case fr := <-t.recvCh:
							if dv, _ := decodeView(fr); dv.Ok && dv.ID == 0x8104 {
								t.send(t.frame(0x0001, []byte{byte(dv.Serial >> 8), byte(dv.Serial), 0x81, 0x04, 0}))
								break answer
							}
						case <-dl:
							break answer
						}
					}
				}
				<-done
				kp.recheck(l, t.idx, "after-command")
				// sentinel
				f := t.frame(0x0002, nil)
				ser := t.serial
				t.send(f)
				ok := false
				dl := time.After(15 * time.Second)
			wait:
				for {
					select {
					case fr := <-t.recvCh:
						dv, _ := decodeView(fr)
						if dv.Ok && dv.ID == 0x8001 && len(dv.Body) == 5 && int(dv.Body[0])<<8|int(dv.Body[1]) == ser {
							ok = true
							break wait
						}
					case <-dl:
						break wait
					}
				}
				time.Sleep(30 * time.Millisecond)
				if ok {
					l.rec.log(t.idx, "D", "end")
				} else {
					l.rec.log(t.idx, "D", "sentinel_timeout")
				}
				t.close(false)
				time.Sleep(50 * time.Millisecond)
				kp.recheck(l, t.idx, "after-close")
			}(t, r.Int63())
		}
		wg.Wait()
		// connections that drop in the middle of a sub-package transfer: the parts were handed to the join
		// callback (first message) and must keep their content after the connection's cleanup
		for c := 0; c < 3 && !l.noFilter; c++ {
			phone := []byte{0x01, 0x30, 0x00, 0x00, 0x09, byte(c)}
			t := l.dial(phone, 0)
			for no := 1; no <= 2; no++ {
				b := make([]byte, 24)
				for k := range b {
					b[k] = byte(0x40 + no*8 + k)
				}
				t.send(buildFrame(hdrSpec{id: 0x0801, serial: t.nextSerial(), frag: 1, total: 4, no: no, phone: phone, body: b}))
				time.Sleep(2 * time.Millisecond)
			}
			if c > 0 {
				// the terminal starts the transfer again: package 1 with a new serial number (and other bytes); the first package 1,
				// already handed to the join callback, keeps the serial number and bytes it was delivered with
				b := make([]byte, 24)
				for k := range b {
					b[k] = byte(0x90 + k)
				}
				t.send(buildFrame(hdrSpec{id: 0x0801, serial: t.nextSerial(), frag: 1, total: 4, no: 1, phone: phone, body: b}))
				time.Sleep(5 * time.Millisecond)
				kp.recheck(l, t.idx, "after-package-1-again")
			}
			time.Sleep(10 * time.Millisecond)
			t.close(c%2 == 0)
			time.Sleep(60 * time.Millisecond)
			kp.recheck(l, t.idx, "after-close-mid-transfer")
		}
		time.Sleep(100 * time.Millisecond)
		l.dump(a[2])
	}
}
