INIT Init
NEXT Next
INVARIANTS SimFrameOk Emit
CHECK_DEADLOCK FALSE
