------------------------------- MODULE MC_Conn -------------------------------
(* The goroutine/channel protocol of one JT808 connection, the session        *)
(* manager and API callers (service/connection.go, session_manager.go), one   *)
(* action per critical section:                                               *)
(*   R  reader : read -> (join) -> enqueue ... -> stop(): leave, close(stop), *)
(*               conn.Close, close(data channels)                             *)
(*   W  writer : select over stopChan / activeMsgChan / completeChan /        *)
(*               msgChan; command = stamp serial, record, write, arm timer;   *)
(*               response = match echoed serial among outstanding, complete   *)
(*   T  timers : sleep, check stopChan, send the time-out to completeChan     *)
(*   M  manager: applies join / leave / route closures in channel order       *)
(*   K  callers: SendActiveMessage = op send, wait for the reply rendezvous   *)
(*   D  terminal (environment): sends messages / responses, closes            *)
(* Protocol = "asis" models the code as found; "fixed" models the repaired    *)
(* teardown (data channels are never closed; completions are handled inline   *)
(* by the writer; timers select on stopChan; the writer fails outstanding     *)
(* and queued commands when the connection stops; the manager hands over      *)
(* without blocking).  C13: NoPanic, Returns.  C12: OwnResponse, ExactlyOne,  *)
(* WrittenOnce.  C06: replies in request order, serials consecutive.          *)
EXTENDS Integers, Sequences, FiniteSets, TLC

CONSTANTS Callers,      \* set of caller ids
          MaxMsgs,      \* terminal-originated reply-bearing messages
          CapMsg, CapActive, CapComplete, CapOp,
          Protocol,     \* "asis" | "fixed" | "fixed2" (fixed + the caller's own deadline, commit c4130fb)
          TermReads,    \* BOOLEAN: FALSE = the terminal never reads, so a command write to it blocks for as long as it stays connected
          TermCloses,   \* BOOLEAN: the terminal eventually disconnects (fairness); FALSE = it may stay connected for ever
          TermResponds, \* BOOLEAN: the terminal may answer commands
          SerialMod,    \* the platform serial wraps at this modulus (65536 in the code)
          Identity      \* BOOLEAN: a time-out / write-failure completion names its request, not only the serial

VARIABLES
  pcR, curR, joined,          \* reader
  pcW, curW, record, pser,    \* writer: record : serial -> caller
  timers,                     \* set of [seq, st]   st \in {"sleep", "fired", "checked"}
  msgChan, activeChan, completeChan, opChan,
  stopClosed, connClosed, dataClosed,
  pcM, curM, registry,        \* manager
  pcK, result, cmdSeq,        \* callers: result[k] \in {"none","resp","timeout","writefail","notexist","closed","busy"}
  termOpen, netIn, netOut, sent, seen,   \* terminal: netIn = bytes towards the server, netOut = frames it received
  panicked
vars == <<pcR, curR, joined, pcW, curW, record, pser, timers, msgChan, activeChan, completeChan, opChan,
          stopClosed, connClosed, dataClosed, pcM, curM, registry, pcK, result, cmdSeq, termOpen, netIn, netOut, sent, seen, panicked>>

Fixed == Protocol \in {"fixed", "fixed2"}
Deadline == Protocol = "fixed2"
Init ==
  /\ pcR = "read" /\ curR = <<>> /\ joined = FALSE
  /\ pcW = "select" /\ curW = <<>> /\ record = <<>> /\ pser = 0
  /\ timers = {}
  /\ msgChan = <<>> /\ activeChan = <<>> /\ completeChan = <<>> /\ opChan = <<>>
  /\ stopClosed = FALSE /\ connClosed = FALSE /\ dataClosed = FALSE
  /\ pcM = "idle" /\ curM = <<>> /\ registry = FALSE
  /\ pcK = [k \in Callers |-> "idle"] /\ result = [k \in Callers |-> "none"] /\ cmdSeq = [k \in Callers |-> -1]
  /\ termOpen = TRUE /\ netIn = <<>> /\ netOut = <<>> /\ sent = 0 /\ seen = {}
  /\ panicked = FALSE

Ext(fn, k, v) == [y \in DOMAIN fn \cup {k} |-> IF y = k THEN v ELSE fn[y]]
Without(fn, k) == [y \in DOMAIN fn \ {k} |-> fn[y]]

-----------------------------------------------------------------------------
(* D: the terminal *)
D_Send == /\ termOpen /\ sent < MaxMsgs /\ Len(netIn) < 2
          /\ netIn' = Append(netIn, [t |-> "req", n |-> sent]) /\ sent' = sent + 1
          /\ UNCHANGED <<pcR, curR, joined, pcW, curW, record, pser, timers, msgChan, activeChan, completeChan, opChan, stopClosed, connClosed, dataClosed, pcM, curM, registry, pcK, result, cmdSeq, termOpen, netOut, seen, panicked>>
\* answer a command it has received (each at most once here; duplicates are exercised on the live server)
D_Respond == /\ termOpen /\ TermResponds /\ Len(netIn) < 2
             /\ \E i \in 1..Len(netOut) : netOut[i].t = "cmd" /\ netOut[i].seq \notin seen
                  /\ netIn' = Append(netIn, [t |-> "resp", n |-> netOut[i].seq]) /\ seen' = seen \cup {netOut[i].seq}
             /\ UNCHANGED <<pcR, curR, joined, pcW, curW, record, pser, timers, msgChan, activeChan, completeChan, opChan, stopClosed, connClosed, dataClosed, pcM, curM, registry, pcK, result, cmdSeq, termOpen, netOut, sent, panicked>>
D_Close == /\ termOpen /\ termOpen' = FALSE
           /\ UNCHANGED <<pcR, curR, joined, pcW, curW, record, pser, timers, msgChan, activeChan, completeChan, opChan, stopClosed, connClosed, dataClosed, pcM, curM, registry, pcK, result, cmdSeq, netIn, netOut, sent, seen, panicked>>

-----------------------------------------------------------------------------
(* R: the reader *)
RVars == <<pcR, curR, joined>>
R_Read == /\ pcR = "read"
          /\ IF netIn # <<>>
             THEN /\ curR' = Head(netIn) /\ netIn' = Tail(netIn) /\ pcR' = IF joined THEN "enq" ELSE "joinSend"
             ELSE /\ ~termOpen /\ pcR' = "leaveSend" /\ UNCHANGED <<curR, netIn>>       \* EOF
          /\ UNCHANGED <<joined, pcW, curW, record, pser, timers, msgChan, activeChan, completeChan, opChan, stopClosed, connClosed, dataClosed, pcM, curM, registry, pcK, result, cmdSeq, termOpen, netOut, sent, seen, panicked>>
R_JoinSend == /\ pcR = "joinSend" /\ Len(opChan) < CapOp
              /\ opChan' = Append(opChan, [op |-> "join"]) /\ pcR' = "joinWait"
              /\ UNCHANGED <<curR, joined, pcW, curW, record, pser, timers, msgChan, activeChan, completeChan, stopClosed, connClosed, dataClosed, pcM, curM, registry, pcK, result, cmdSeq, termOpen, netIn, netOut, sent, seen, panicked>>
\* R_JoinWait is completed by the manager (M_Exec sets pcR)
R_Enq == /\ pcR = "enq" /\ Len(msgChan) < CapMsg
         /\ msgChan' = Append(msgChan, curR) /\ pcR' = "read"
         /\ UNCHANGED <<curR, joined, pcW, curW, record, pser, timers, activeChan, completeChan, opChan, stopClosed, connClosed, dataClosed, pcM, curM, registry, pcK, result, cmdSeq, termOpen, netIn, netOut, sent, seen, panicked>>
\* stop(): leave (through the manager), close(stopChan), conn.Close(), close the data channels
R_LeaveSend == /\ pcR = "leaveSend" /\ Len(opChan) < CapOp
               /\ opChan' = Append(opChan, [op |-> "leave"]) /\ pcR' = "leaveWait"
               /\ UNCHANGED <<curR, joined, pcW, curW, record, pser, timers, msgChan, activeChan, completeChan, stopClosed, connClosed, dataClosed, pcM, curM, registry, pcK, result, cmdSeq, termOpen, netIn, netOut, sent, seen, panicked>>
R_CloseStop == /\ pcR = "closeStop" /\ stopClosed' = TRUE /\ pcR' = "connClose"
               /\ UNCHANGED <<curR, joined, pcW, curW, record, pser, timers, msgChan, activeChan, completeChan, opChan, connClosed, dataClosed, pcM, curM, registry, pcK, result, cmdSeq, termOpen, netIn, netOut, sent, seen, panicked>>
R_ConnClose == /\ pcR = "connClose" /\ connClosed' = TRUE /\ pcR' = IF Fixed THEN "done" ELSE "closeData"
               /\ UNCHANGED <<curR, joined, pcW, curW, record, pser, timers, msgChan, activeChan, completeChan, opChan, stopClosed, dataClosed, pcM, curM, registry, pcK, result, cmdSeq, termOpen, netIn, netOut, sent, seen, panicked>>
R_CloseData == /\ pcR = "closeData" /\ dataClosed' = TRUE /\ pcR' = "done"
               /\ UNCHANGED <<curR, joined, pcW, curW, record, pser, timers, msgChan, activeChan, completeChan, opChan, stopClosed, connClosed, pcM, curM, registry, pcK, result, cmdSeq, termOpen, netIn, netOut, sent, seen, panicked>>

-----------------------------------------------------------------------------
(* W: the writer *)
WriteFails == connClosed                 \* writes to a socket the server closed fail
WriteMayFail == ~termOpen                \* writes to a socket the peer closed may fail (RST) or vanish
\* (a caller that already gave up is not waiting any more: with the buffered, never closed reply channel of "fixed2" the
\*  late result is simply dropped)
Deliver(k, kind) == IF pcK[k] = "wait" THEN /\ result' = [result EXCEPT ![k] = kind] /\ pcK' = [pcK EXCEPT ![k] = "done"]
                    ELSE UNCHANGED <<pcK, result>>
\* a command write to a terminal that does not read blocks (nothing else the writer could do meanwhile)
Blocked == ~TermReads /\ termOpen /\ ~connClosed

W_SelStop == /\ pcW = "select" /\ stopClosed
             /\ IF Fixed /\ (DOMAIN record # {} \/ activeChan # <<>>)
                THEN pcW' = "drain" /\ UNCHANGED <<curW>>
                ELSE pcW' = "exit" /\ UNCHANGED <<curW>>
             /\ UNCHANGED <<pcR, curR, joined, record, pser, timers, msgChan, activeChan, completeChan, opChan, stopClosed, connClosed, dataClosed, pcM, curM, registry, pcK, result, cmdSeq, termOpen, netIn, netOut, sent, seen, panicked>>
\* fixed protocol: the stopping writer answers every outstanding and every queued command with an error
W_Drain == /\ pcW = "drain"
           /\ IF DOMAIN record # {}
              THEN LET s == CHOOSE s \in DOMAIN record : TRUE IN
                   /\ Deliver(record[s], "closed") /\ record' = Without(record, s) /\ UNCHANGED <<activeChan, pcW>>
              ELSE IF activeChan # <<>>
              THEN /\ Deliver(Head(activeChan), "closed") /\ activeChan' = Tail(activeChan) /\ UNCHANGED <<record, pcW>>
              ELSE /\ pcW' = "exit" /\ UNCHANGED <<record, activeChan, pcK, result>>
           /\ UNCHANGED <<pcR, curR, joined, curW, pser, timers, msgChan, completeChan, opChan, stopClosed, connClosed, dataClosed, pcM, curM, registry, cmdSeq, termOpen, netIn, netOut, sent, seen, panicked>>
W_SelActive == /\ pcW = "select" /\ activeChan # <<>> /\ pser \notin DOMAIN record   \* (65536 outstanding requests are out of scope)
               /\ LET k == Head(activeChan) IN
                  /\ activeChan' = Tail(activeChan) /\ curW' = [k |-> k, seq |-> pser]
                  /\ record' = Ext(record, pser, k) /\ cmdSeq' = [cmdSeq EXCEPT ![k] = pser] /\ pser' = (pser + 1) % SerialMod
                  /\ pcW' = "actWrite"
               /\ UNCHANGED <<pcR, curR, joined, timers, msgChan, completeChan, opChan, stopClosed, connClosed, dataClosed, pcM, curM, registry, pcK, result, termOpen, netIn, netOut, sent, seen, panicked>>
W_ActWrite == /\ pcW = "actWrite"
              /\ \/ /\ ~WriteFails /\ ~Blocked               \* written (or swallowed by a dead peer): arm the timer
                    /\ netOut' = IF termOpen THEN Append(netOut, [t |-> "cmd", seq |-> curW.seq]) ELSE netOut
                    /\ timers' = timers \cup {[seq |-> curW.seq, st |-> "sleep", k |-> curW.k]}
                    /\ pcW' = "select" /\ UNCHANGED <<record, pcK, result>>
                 \/ /\ (WriteFails \/ WriteMayFail)          \* write error
                    /\ IF Fixed
                       THEN /\ Deliver(curW.k, "writefail") /\ record' = Without(record, curW.seq) /\ pcW' = "select"   \* completed inline
                       ELSE /\ pcW' = "failSend" /\ UNCHANGED <<record, pcK, result>>
                    /\ UNCHANGED <<netOut, timers>>
              /\ UNCHANGED <<pcR, curR, joined, curW, pser, msgChan, activeChan, completeChan, opChan, stopClosed, connClosed, dataClosed, pcM, curM, registry, cmdSeq, termOpen, netIn, sent, seen, panicked>>
W_FailSend == /\ pcW = "failSend"
              /\ IF dataClosed THEN panicked' = TRUE /\ UNCHANGED <<completeChan, pcW>>
                 ELSE /\ Len(completeChan) < CapComplete
                      /\ completeChan' = Append(completeChan, [seq |-> curW.seq, kind |-> "writefail", k |-> curW.k]) /\ pcW' = "select"
                      /\ UNCHANGED panicked
              /\ UNCHANGED <<pcR, curR, joined, curW, record, pser, timers, msgChan, activeChan, opChan, stopClosed, connClosed, dataClosed, pcM, curM, registry, pcK, result, cmdSeq, termOpen, netIn, netOut, sent, seen>>
W_SelComplete == /\ pcW = "select" /\ completeChan # <<>>
                 /\ LET c == Head(completeChan) IN
                    /\ completeChan' = Tail(completeChan)
                    /\ IF c.seq \in DOMAIN record /\ (~Identity \/ c.kind = "resp" \/ c.k = record[c.seq])
                       THEN /\ Deliver(record[c.seq], IF c.kind = "timeout" /\ c.k # record[c.seq] THEN "stale-timeout" ELSE c.kind)
                            /\ record' = Without(record, c.seq)
                       ELSE UNCHANGED <<record, pcK, result>>
                 /\ UNCHANGED <<pcR, curR, joined, pcW, curW, pser, timers, msgChan, activeChan, opChan, stopClosed, connClosed, dataClosed, pcM, curM, registry, cmdSeq, termOpen, netIn, netOut, sent, seen, panicked>>
W_SelMsg == /\ pcW = "select" /\ msgChan # <<>>
            /\ LET m == Head(msgChan) IN
               /\ msgChan' = Tail(msgChan)
               /\ IF m.t = "resp"
                  THEN IF m.n \in DOMAIN record
                       THEN IF Fixed
                            THEN /\ Deliver(record[m.n], "resp") /\ record' = Without(record, m.n)
                                 /\ UNCHANGED <<pcW, curW, netOut, pser>>
                            ELSE /\ pcW' = "selfSend" /\ curW' = [k |-> record[m.n], seq |-> m.n]
                                 /\ UNCHANGED <<record, pcK, result, netOut, pser>>
                       ELSE UNCHANGED <<pcW, curW, record, pcK, result, netOut, pser>>       \* unknown serial: dropped
                  ELSE \* a request: reply, stamped with the next platform serial
                       /\ netOut' = IF termOpen /\ ~connClosed THEN Append(netOut, [t |-> "reply", n |-> m.n, seq |-> pser]) ELSE netOut
                       /\ pser' = (pser + 1) % SerialMod
                       /\ UNCHANGED <<pcW, curW, record, pcK, result>>
            /\ UNCHANGED <<pcR, curR, joined, timers, activeChan, completeChan, opChan, stopClosed, connClosed, dataClosed, pcM, curM, registry, cmdSeq, termOpen, netIn, sent, seen, panicked>>
W_SelfSend == /\ pcW = "selfSend"
              /\ IF dataClosed THEN panicked' = TRUE /\ UNCHANGED <<completeChan, pcW>>
                 ELSE /\ Len(completeChan) < CapComplete
                      /\ completeChan' = Append(completeChan, [seq |-> curW.seq, kind |-> "resp", k |-> 0]) /\ pcW' = "select"
                      /\ UNCHANGED panicked
              /\ UNCHANGED <<pcR, curR, joined, curW, record, pser, timers, msgChan, activeChan, opChan, stopClosed, connClosed, dataClosed, pcM, curM, registry, pcK, result, cmdSeq, termOpen, netIn, netOut, sent, seen>>

-----------------------------------------------------------------------------
(* T: time-out goroutines *)
T_Fire == \E t \in timers : t.st = "sleep" /\ timers' = (timers \ {t}) \cup {[t EXCEPT !.st = "fired"]}
          /\ UNCHANGED <<pcR, curR, joined, pcW, curW, record, pser, msgChan, activeChan, completeChan, opChan, stopClosed, connClosed, dataClosed, pcM, curM, registry, pcK, result, cmdSeq, termOpen, netIn, netOut, sent, seen, panicked>>
\* as found: check stopChan, then send (not atomic).  fixed: one select over stopChan and the send.
T_Check == /\ ~Fixed
           /\ \E t \in timers : t.st = "fired"
                /\ timers' = IF stopClosed THEN timers \ {t} ELSE (timers \ {t}) \cup {[t EXCEPT !.st = "checked"]}
           /\ UNCHANGED <<pcR, curR, joined, pcW, curW, record, pser, msgChan, activeChan, completeChan, opChan, stopClosed, connClosed, dataClosed, pcM, curM, registry, pcK, result, cmdSeq, termOpen, netIn, netOut, sent, seen, panicked>>
T_Send == \E t \in timers :
            /\ t.st = (IF Fixed THEN "fired" ELSE "checked")
            /\ IF Fixed /\ stopClosed THEN timers' = timers \ {t} /\ UNCHANGED <<completeChan, panicked>>
               ELSE IF dataClosed THEN panicked' = TRUE /\ UNCHANGED <<completeChan, timers>>
               ELSE /\ Len(completeChan) < CapComplete
                    /\ completeChan' = Append(completeChan, [seq |-> t.seq, kind |-> "timeout", k |-> t.k]) /\ timers' = timers \ {t}
                    /\ UNCHANGED panicked
            /\ UNCHANGED <<pcR, curR, joined, pcW, curW, record, pser, msgChan, activeChan, opChan, stopClosed, connClosed, dataClosed, pcM, curM, registry, pcK, result, cmdSeq, termOpen, netIn, netOut, sent, seen>>

-----------------------------------------------------------------------------
(* M: the session manager; K: callers *)
K_Call(k) == /\ pcK[k] = "idle" /\ Len(opChan) < CapOp
             /\ opChan' = Append(opChan, [op |-> "route", k |-> k]) /\ pcK' = [pcK EXCEPT ![k] = "wait"]
             /\ UNCHANGED <<pcR, curR, joined, pcW, curW, record, pser, timers, msgChan, activeChan, completeChan, stopClosed, connClosed, dataClosed, pcM, curM, registry, result, cmdSeq, termOpen, netIn, netOut, sent, seen, panicked>>
\* "fixed2": SendActiveMessage gives up at its own deadline (time-out + 1 s), whatever the connection is doing
K_Deadline(k) == /\ Deadline /\ pcK[k] = "wait"
                 /\ result' = [result EXCEPT ![k] = "deadline"] /\ pcK' = [pcK EXCEPT ![k] = "done"]
                 /\ UNCHANGED <<pcR, curR, joined, pcW, curW, record, pser, timers, msgChan, activeChan, completeChan, opChan, stopClosed, connClosed, dataClosed, pcM, curM, registry, cmdSeq, termOpen, netIn, netOut, sent, seen, panicked>>
M_Exec == /\ pcM = "idle" /\ opChan # <<>>
          /\ LET o == Head(opChan) IN
             /\ opChan' = Tail(opChan)
             /\ CASE o.op = "join" ->
                       /\ registry' = TRUE /\ joined' = TRUE /\ pcR' = "enq"
                       /\ UNCHANGED <<pcM, curM, activeChan, pcK, result, panicked>>
                  [] o.op = "leave" ->
                       /\ registry' = FALSE /\ pcR' = "closeStop"
                       /\ UNCHANGED <<pcM, curM, activeChan, pcK, result, joined, panicked>>
                  [] o.op = "route" ->
                       IF ~registry THEN /\ Deliver(o.k, "notexist") /\ UNCHANGED <<pcM, curM, activeChan, registry, joined, pcR, panicked>>
                       ELSE IF dataClosed THEN /\ panicked' = TRUE /\ UNCHANGED <<pcM, curM, activeChan, registry, joined, pcR, pcK, result>>
                       ELSE IF Len(activeChan) < CapActive
                            THEN /\ activeChan' = Append(activeChan, o.k) /\ UNCHANGED <<pcM, curM, registry, joined, pcR, pcK, result, panicked>>
                       ELSE IF Fixed THEN /\ Deliver(o.k, "busy") /\ UNCHANGED <<pcM, curM, activeChan, registry, joined, pcR, panicked>>
                       ELSE /\ pcM' = "routeBlocked" /\ curM' = o /\ UNCHANGED <<activeChan, registry, joined, pcR, pcK, result, panicked>>
          /\ UNCHANGED <<curR, pcW, curW, record, pser, timers, msgChan, completeChan, stopClosed, connClosed, dataClosed, cmdSeq, termOpen, netIn, netOut, sent, seen>>
M_Unblock == /\ pcM = "routeBlocked"
             /\ IF dataClosed THEN panicked' = TRUE /\ UNCHANGED <<activeChan, pcM>>
                ELSE /\ Len(activeChan) < CapActive /\ activeChan' = Append(activeChan, curM.k) /\ pcM' = "idle" /\ UNCHANGED panicked
             /\ UNCHANGED <<pcR, curR, joined, pcW, curW, record, pser, timers, msgChan, completeChan, opChan, stopClosed, connClosed, dataClosed, curM, registry, pcK, result, cmdSeq, termOpen, netIn, netOut, sent, seen>>

Next == /\ ~panicked
        /\ \/ D_Send \/ D_Respond \/ D_Close
           \/ R_Read \/ R_JoinSend \/ R_Enq \/ R_LeaveSend \/ R_CloseStop \/ R_ConnClose \/ R_CloseData
           \/ W_SelStop \/ W_Drain \/ W_SelActive \/ W_ActWrite \/ W_FailSend \/ W_SelComplete \/ W_SelMsg \/ W_SelfSend
           \/ T_Fire \/ T_Check \/ T_Send
           \/ M_Exec \/ M_Unblock \/ \E k \in Callers : K_Call(k) \/ K_Deadline(k)

\* fairness: every process keeps running; the terminal eventually closes (a session ends)
Fairness == /\ WF_vars(R_Read) /\ WF_vars(R_JoinSend) /\ WF_vars(R_Enq) /\ WF_vars(R_LeaveSend) /\ WF_vars(R_CloseStop)
            /\ WF_vars(R_ConnClose) /\ WF_vars(R_CloseData)
            /\ SF_vars(W_SelStop) /\ WF_vars(W_Drain) /\ SF_vars(W_SelActive) /\ WF_vars(W_ActWrite) /\ WF_vars(W_FailSend)
            /\ SF_vars(W_SelComplete) /\ SF_vars(W_SelMsg) /\ WF_vars(W_SelfSend)
            /\ WF_vars(T_Fire) /\ WF_vars(T_Check) /\ WF_vars(T_Send)
            /\ WF_vars(M_Exec) /\ WF_vars(M_Unblock)
            /\ (TermCloses => WF_vars(D_Close))
            /\ \A k \in Callers : WF_vars(K_Deadline(k))
Spec == Init /\ [][Next]_vars /\ Fairness

-----------------------------------------------------------------------------
(* Properties *)
NoPanic == ~panicked                                                    \* C13
Returns == \A k \in Callers : (pcK[k] = "wait") ~> (pcK[k] = "done")    \* C13 (liveness, under Fairness)
\* C12: a caller that got a response got it for its own serial, and each call returns at most once (structural: pcK)
OwnResponse == \A k \in Callers : result[k] = "resp" => cmdSeq[k] \in seen
ResultsSane == \A k \in Callers : (pcK[k] = "done") = (result[k] # "none")
\* C12: a time-out result comes from the timer armed for that very request (serials are reused after the wrap)
OwnTimeout == \A k \in Callers : result[k] # "stale-timeout"
\* C12: outstanding requests have distinct serials (structural: record is a function); a caller's serial is in range
WrittenOnce == \A k \in Callers : cmdSeq[k] \in -1..(SerialMod - 1)
\* C06: every frame the terminal received carries the next platform serial; replies in request order
SerialsConsecutive == \A i \in 1..(Len(netOut) - 1) : netOut[i + 1].seq = (netOut[i].seq + 1) % SerialMod
RepliesInOrder == \A i, j \in 1..Len(netOut) : (i < j /\ netOut[i].t = "reply" /\ netOut[j].t = "reply") => netOut[i].n < netOut[j].n
NoDuplicateReply == \A i, j \in 1..Len(netOut) : (i # j /\ netOut[i].t = "reply" /\ netOut[j].t = "reply") => netOut[i].n # netOut[j].n
=============================================================================
