----------------------------- MODULE Trace_Attach -----------------------------
(* C15/C16/C10, implementation -> specification: sessions recorded from the  *)
(* real attachment connection loop (seeded random file sets, chunk orders,   *)
(* resends, dialects, segmentations, hostile bytes, close points).  One      *)
(* event per Read of the implementation: the bytes it received and the       *)
(* observations (stage, reply bytes, completed content) it produced before   *)
(* the next Read.  TLC steps the specification's session through the same    *)
(* reads; the logged observations must be exactly the specification's.       *)
(* A mismatch is recorded in `bad` (first one per session) instead of        *)
(* stopping, so that the REST of the trace is still checked; the final       *)
(* state hands `bad` to the checker, and Accepted requires it to be empty.   *)
EXTENDS Attach, Json, IOUtils, CSV

Trace == ndJsonDeserialize(IOEnv.VERIF_TRACE)
VARIABLES l, srv, hist, d, diverged, bad
vars == <<l, srv, hist, d, diverged, bad>>

Init == l = 1 /\ srv = InitSession /\ hist = <<>> /\ d = "JS" /\ diverged = FALSE /\ bad = <<>>
E == Trace[l]
Proj(o) == [kind |-> o.kind, stage |-> o.stage,
            reply |-> IF o.kind = "control" THEN o.reply ELSE <<>>,
            name |-> IF o.kind = "chunk" THEN o.name ELSE <<>>,
            complete |-> o.kind = "chunk" /\ o.complete, content |-> IF o.kind = "chunk" THEN o.content ELSE <<>>]
Flag(ok, what) == IF ok \/ diverged THEN bad ELSE Append(bad, [l |-> l, sess |-> E.sess, what |-> what])

Reset == /\ E.ev = "reset" /\ srv' = InitSession /\ hist' = <<>> /\ d' = E.dialect /\ diverged' = FALSE /\ bad' = bad
Read  == /\ E.ev = "read"
         /\ LET r    == Drain(d, srv, hist \o E.bytes, <<>>)
                live == SelectSeq(r.obs, LAMBDA o : o.kind # "abort")
                spec == [i \in 1..Len(live) |-> Proj(live[i])]
                impl == [i \in 1..Len(E.obs) |-> Proj(E.obs[i])]
                ok   == spec = impl
            IN /\ srv' = r.s /\ hist' = r.hist
               /\ bad' = Flag(ok, "ObsMatch")
               /\ diverged' = (diverged \/ ~ok)
         /\ UNCHANGED d
\* the peer closed (or the implementation gave up): how the session ended
Close == /\ E.ev = "close" /\ UNCHANGED <<srv, hist, d>>
         /\ LET ok == (E.quit = "FailQuit") = (~srv.alive \/ E.reset) IN
            bad' = Flag(ok, "QuitMatch") /\ diverged' = (diverged \/ ~ok)
Next == l <= Len(Trace) /\ l' = l + 1 /\ (Reset \/ Read \/ Close)

Done == l = Len(Trace) + 1
Report == Done => CSVWrite("%1$s", <<ToJson([bad |-> bad, n |-> Len(Trace)])>>, IOEnv.VERIF_OUT)
=============================================================================
