-------------------------------- MODULE Path --------------------------------
(* C19: where the default attachment handler may create files.  A file name *)
(* announced by a terminal is a byte string; the file system reads it as    *)
(* segments separated by '/'.  Resolution is POSIX-lexical: "" and "."      *)
(* segments are skipped, ".." removes the previous segment - or climbs out  *)
(* of the base directory when there is none.                                *)
EXTENDS Integers, Sequences, FiniteSets, SequencesExt, TLC

Slash == 47
DotDot == <<46, 46>>
Dot == <<46>>

\* split a byte string at '/'
RECURSIVE SplitFrom(_, _, _, _)
SplitFrom(s, i, cur, acc) ==
    IF i > Len(s) THEN Append(acc, cur)
    ELSE IF s[i] = Slash THEN SplitFrom(s, i + 1, <<>>, Append(acc, cur))
    ELSE SplitFrom(s, i + 1, Append(cur, s[i]), acc)
Split(s) == SplitFrom(s, 1, <<>>, <<>>)

JoinSegs(segs) == IF segs = <<>> THEN <<>>
                  ELSE FoldLeft(LAMBDA acc, x : acc \o <<Slash>> \o x, segs[1], Tail(segs))

\* Resolve relative to the terminal's directory: [up, path] where up = how many levels the
\* name climbs above the directory (0 = stays inside), path = remaining segments
RECURSIVE ResolveFrom(_, _, _, _)
ResolveFrom(segs, i, stack, up) ==
    IF i > Len(segs) THEN [up |-> up, path |-> stack]
    ELSE LET g == segs[i] IN
         IF g = <<>> \/ g = Dot THEN ResolveFrom(segs, i + 1, stack, up)
         ELSE IF g = DotDot THEN
              (IF stack = <<>> THEN ResolveFrom(segs, i + 1, stack, up + 1)
               ELSE ResolveFrom(segs, i + 1, SubSeq(stack, 1, Len(stack) - 1), up))
         ELSE ResolveFrom(segs, i + 1, Append(stack, g), up)
Resolve(name) == ResolveFrom(Split(name), 1, <<>>, 0)

\* classes of names
HasNul(name) == \E i \in 1..Len(name) : name[i] = 0
Plain(name) == /\ Len(name) > 0 /\ ~HasNul(name) /\ name # Dot /\ name # DotDot
               /\ \A i \in 1..Len(name) : name[i] # Slash
Escaping(name) == Resolve(name).up > 0          \* lexically leaves the directory
Class(name) == IF Plain(name) THEN "plain"
               ELSE IF Escaping(name) THEN "escaping"
               ELSE IF Resolve(name).path = <<>> THEN "degenerate"    \* the directory itself: "", ".", "a/.."
               ELSE "nested"                                          \* a/b: inside, needs a sub-directory

\* the property: a written path (relative to the working directory, as segments) is confined
\* iff, resolved, it stays strictly inside <phone>/
Confined(phoneSeg, written) ==
    LET r == ResolveFrom(written, 1, <<>>, 0) IN
    r.up = 0 /\ Len(r.path) >= 2 /\ r.path[1] = phoneSeg
=============================================================================
