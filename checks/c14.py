"""C14 Missing sub-packages are re-requested exactly, stale transfers expire (DESIGN.md section 5, C14)."""
import json, os
import vlib
from checks import extract_common as xc

LEVEL = "model_checking"
TICKS = "{4900, 5200, 55000}"


def check(ctx):
    thorough = ctx.tier == "thorough"
    ctx.build()
    cfgs = [dict(NA=3, NB=0, MaxSteps=6, MaxDup=1, MaxBad=0, Ticks=TICKS, Ver=0),
            # pacing: after a re-request, further reads that bring no packet of the transfer (plain messages, impossible numbers)
            # do not trigger another one before the idle time has passed again
            dict(NA=3, NB=0, MaxSteps=6, MaxDup=0, MaxBad=1, MaxPlain=2, MaxRestart=0, Ticks="{5200}", Ver=0),
            # several re-request rounds with partial resupply in between (totals of 5)
            dict(NA=5, NB=0, MaxSteps=7, MaxDup=0, MaxBad=0, Ticks="{5200}", Ver=1)]
    if thorough:
        cfgs = [dict(NA=3, NB=0, MaxSteps=7, MaxDup=1, MaxBad=1, Ticks=TICKS, Ver=0),
                dict(NA=2, NB=2, MaxSteps=7, MaxDup=0, MaxBad=0, Ticks=TICKS, Ver=1),
                dict(NA=4, NB=0, MaxSteps=7, MaxDup=0, MaxBad=0, Ticks="{5200, 55000}", Ver=1),
                dict(NA=5, NB=0, MaxSteps=8, MaxDup=0, MaxBad=0, Ticks="{5200}", Ver=1),
                dict(NA=6, NB=0, MaxSteps=8, MaxDup=0, MaxBad=0, Ticks="{5200}", Ver=0)]
    xc.mc_subpkg(ctx, cfgs)
    xc.trace_extract(ctx, 300 if thorough else 40)
    # live, with real waiting (5.3 s): five idle transfers, a busy writer, more re-requests than the writer's queue holds
    from checks import live_common as lc
    from checks.c01 import trace_validate
    lv = os.path.join(ctx.scratch, "c14_live.ndjson")
    r = ctx.vh(["live-c14", lv], timeout=300)
    lc.crash_check(ctx, r.returncode, r.stderr, "live-c14")
    lev = vlib.read_nd(lv, quoted=False)
    trace_validate(ctx, "Trace_ReRequest", lv, lev, "live-re-requests-validated-by-Trace_ReRequest", lambda inv, e: inv + " live")
    ctx.cov["rule"] = ("MC_SubPkg with logical time: Tick steps of 4.9 s / 5.2 s / 55 s between frames so that behaviours cross the 5 s idle "
                       "and 60 s expiry thresholds from both sides (margins of 100-200 ms); ExactMissing, ReReqSpacing, MustReRequest, "
                       "ExpiredNeverDelivered on the spec; each behaviour replayed on the real extractor with Age(d) standing for elapsed time. "
                       "Random sessions with totals to 255 and age jumps validated by Trace_Extract.")
    ctx.cov["exhaustive"] = True
    ctx.assumptions += ["logical time: the accessor's Age(d) moves transfer timestamps back by d; thresholds are never probed closer than 100 ms",
                        "the platform serial stamped on the 0x8003 frame by the writer is C06's subject; here the extractor's 0x8003 body is compared"]


def replay(ctx, path):
    ctx.build()
    xc.replay_any(ctx, json.load(open(path))["replay"])
