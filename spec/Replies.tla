------------------------------ MODULE Replies ------------------------------
(* The reply function of the platform in its default configuration          *)
(* (service.createDefaultHandle + the model types' HasReply / ReplyBody /   *)
(* ReplyProtocol).  One operator, used by the connection model, the trace   *)
(* specifications, the attachment session and the terminal simulator        *)
(* ("the simulator predicts the reply the server sends" = two               *)
(* implementations against this one definition).                            *)
(* A message m is a Frame!Decode record (id, ver, digits, serial, body).    *)
EXTENDS Frame

\* IDs with a default handler (everything else is reported as unsupported, gets no reply, does not join)
Supported == {1, 256, 258, 2, 512, 1796, 260, 2053, 2048, 2049,             \* 0001 0100 0102 0002 0200 0704 0104 0805 0800 0801
              32771, 33027, 33028, 34817,                                   \* 8003 8103 8104 8801
              36867, 4099, 4101, 37121, 37122, 37381, 4613, 37382, 4614, 37383,   \* 9003 1003 1005 9101 9102 9205 1205 9206 1206 9207
              37384, 4624, 4625, 4626}                                      \* 9208 1210 1211 1212
\* terminal messages that are themselves responses to platform commands
ResponseIds == {1, 260, 2053, 4613, 4614}                                   \* 0001 0104 0805 1205 1206
\* IDs answered automatically
ReplyBearing == {256, 258, 2, 512, 1796, 2048, 2049, 4099, 4101, 4624, 4625, 4626}

\* the phone number as the library renders it: digits (hex letters for nibbles > 9), leading zeros stripped
AsciiDigit(n) == IF n < 10 THEN 48 + n ELSE 87 + n
PhoneAscii(digits) == [i \in 1..Len(digits) |-> AsciiDigit(digits[i])]

Body8001(serial, id, result) == U16(serial) \o U16(id) \o <<result>>

\* 0x0102: 2013 - the whole body is the code; 2019 - len, code, IMEI[15], version[20]
AuthOf(m) == IF m.ver = 1
             THEN (IF Len(m.body) < 36 \/ Len(m.body) < 1 + m.body[1] + 35 THEN [ok |-> FALSE, code |-> <<>>]
                   ELSE [ok |-> TRUE, code |-> Sub(m.body, 2, 1 + m.body[1])])
             ELSE [ok |-> TRUE, code |-> m.body]

\* ReplyFor(m) -> [has, id, body]   (has = FALSE: no frame is written for m)
NoReply == [has |-> FALSE, id |-> 0, body |-> <<>>]
ReplyFor(m) ==
    IF m.id \notin ReplyBearing THEN NoReply
    ELSE IF m.id = 256 THEN       \* 0x0100 -> 0x8100: serial, result 0, authentication code = phone
        [has |-> TRUE, id |-> 33024, body |-> U16(m.serial) \o <<0>> \o PhoneAscii(m.digits)]
    ELSE IF m.id = 258 THEN       \* 0x0102 -> 0x8001, result 1 for a failed authentication; unparsable (2019): logged, not answered
        LET a == AuthOf(m) IN
        IF ~a.ok THEN NoReply
        ELSE [has |-> TRUE, id |-> 32769,
              body |-> Body8001(m.serial, m.id, IF Mat(a.code) = Mat(PhoneAscii(m.digits)) THEN 0 ELSE 1)]
    ELSE IF m.id = 2049 THEN      \* 0x0801 -> 0x8800: multimedia id (bodies shorter than the fixed part: not judged)
        [has |-> TRUE, id |-> 34816, body |-> Sub(m.body, 1, 4)]
    ELSE IF m.id = 4626 THEN      \* 0x1212 -> 0x9212: name, type, result 0, no ranges (this server tracks no files)
        [has |-> TRUE, id |-> 37394,
         body |-> IF Len(m.body) >= 6 /\ Len(m.body) = 6 + m.body[1]
                  THEN Sub(m.body, 1, 2 + m.body[1]) \o <<0, 0>> ELSE <<>>]
    ELSE IF m.id = 4099 THEN      \* 0x1003 -> 0x8001 with an empty body (by design)
        [has |-> TRUE, id |-> 32769, body |-> <<>>]
    ELSE [has |-> TRUE, id |-> 32769, body |-> Body8001(m.serial, m.id, 0)]

\* the frame written for m with platform serial pser
ReplyFrame(m, pser) == LET r == ReplyFor(m) IN EncodeReply(m, r.id, pser, r.body)
\* bodies for which the reply body is fully determined by the property (see C06 text)
Judged(m) == /\ (m.id = 2049 => Len(m.body) >= 36)
             /\ (m.id = 4626 => Len(m.body) >= 6 /\ Len(m.body) = 6 + m.body[1])
=============================================================================
