INIT Init
NEXT Next
CONSTANTS
  MaxList = 3
INVARIANTS RoundTrips Emit
CHECK_DEADLOCK FALSE
