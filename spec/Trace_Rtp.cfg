INIT Init
NEXT Next
INVARIANTS ClassesMatch FieldsMatch
CHECK_DEADLOCK FALSE
