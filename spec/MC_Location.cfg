INIT Init
NEXT Next
CONSTANTS
  MaxItems = 2
INVARIANTS TablesSane FlagsExact Emit TablesOut
CHECK_DEADLOCK FALSE
