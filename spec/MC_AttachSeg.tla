---------------------------- MODULE MC_AttachSeg ----------------------------
(* C15, segmentation independence on the specification: a fixed upload      *)
(* script (two files, interleaved chunks, one resend, an early 0x1212) is   *)
(* cut into reads in EVERY possible way.  The state after a prefix is a     *)
(* function of the prefix alone, so the reachable states are the positions  *)
(* and the transitions are all pairs i < j.                                 *)
EXTENDS Attach, Json, CSV, IOUtils

CONSTANTS D, Ver

N1 == <<97, 46, 106, 112, 103>>
N2 == <<48, 49, 99, 100, 95, 98>>
C1 == <<11, 12, 13, 14, 15>>
C2 == <<126, 125, 33>>
Hdr == [ver |-> Ver, phone |-> IF Ver = 1 THEN <<0, 0, 0, 0, 1, 56, 0, 0, 0, 1>> ELSE <<1, 56, 0, 0, 0, 1>>]
Items == << [name |-> N1, size |-> 5], [name |-> N2, size |-> 3] >>
Units == <<
    Control(Hdr, 4624, 0, Body1210(D, <<65, 48, 49, 99, 100, 66>>, Items)),
    Control(Hdr, 4625, 1, Body1211(N1, 0, 5)),
    ChunkBytes(D, N1, 3, <<14, 15>>),
    Control(Hdr, 4625, 2, Body1211(N2, 2, 3)),
    ChunkBytes(D, N2, 0, <<126, 125>>),
    ChunkBytes(D, N1, 3, <<14, 15>>),
    Control(Hdr, 4626, 3, Body1211(N1, 0, 5)),
    ChunkBytes(D, N1, 0, <<11, 12, 13>>),
    ChunkBytes(D, N2, 2, <<33>>),
    Control(Hdr, 4626, 4, Body1211(N1, 0, 5)),
    Control(Hdr, 4626, 5, Body1211(N2, 2, 3)) >>
Stream == Concat(Units)
Ends == [k \in 0..Len(Units) |-> Len(Concat(SubSeq(Units, 1, k)))]

\* reference semantics: units handed over one at a time
RECURSIVE RefObs(_, _, _)
RefObs(k, s, acc) == IF k > Len(Units) THEN acc
                     ELSE LET r == Drain(D, s, Units[k], <<>>) IN RefObs(k + 1, r.s, Append(acc, r.obs))
Ref == RefObs(1, InitSession, <<>>)       \* Ref[k] = observations caused by unit k

VARIABLES pos, srv, hist, obs
Init == pos = 0 /\ srv = InitSession /\ hist = <<>> /\ obs = <<>>
Next == \E j \in (pos + 1)..Len(Stream) :
          LET r == Drain(D, srv, hist \o SubSeq(Stream, pos + 1, j), <<>>) IN
          pos' = j /\ srv' = r.s /\ hist' = r.hist /\ obs' = obs \o r.obs

WholeUnits == Cardinality({k \in 1..Len(Units) : Ends[k] <= pos})
\* exactly the units whose last byte has arrived have been processed, with the reference outcome
SegIndependent == /\ obs = Concat(SubSeq(Ref, 1, WholeUnits))
                  /\ hist = SubSeq(Stream, Ends[WholeUnits] + 1, pos)
                  /\ srv.alive
RefSane == \A k \in 1..Len(Units) : Len(Ref[k]) = 1 /\ Ref[k][1].kind # "abort"
FinalOk == pos = Len(Stream) => /\ obs[Len(obs)].stage = "Complete" /\ obs[Len(obs) - 1].stage = "Complete"
                                /\ obs[7].stage = "Supplementary"
EmitOnce == pos = 0 => CSVWrite("%1$s", <<ToJson([dialect |-> D, units |-> [k \in 1..Len(Units) |->
                         [bytes |-> Units[k], what |-> "u", obs |-> Ref[k]]]])>>, IOEnv.VERIF_OUT)
=============================================================================
