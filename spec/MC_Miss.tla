------------------------------- MODULE MC_Miss -------------------------------
(* C16, the pure range computation: every file size 1..MaxSize and EVERY set *)
(* of pairwise disjoint received chunks (every coverage pattern x every way  *)
(* of splitting the covered runs).  A state is a case: chunks are added left *)
(* to right, so each set is generated once.                                  *)
EXTENDS Attach, Json, CSV, IOUtils
CONSTANTS MaxSize

VARIABLES size, chunks, next      \* next: first offset a further chunk may start at
Init == size \in 1..MaxSize /\ chunks = <<>> /\ next = 0
Next == \E o \in next..(size - 1), n \in 1..size :
          /\ o + n <= size
          /\ chunks' = Append(chunks, [off |-> o, len |-> n]) /\ next' = o + n /\ UNCHANGED size

Got == [o \in {chunks[i].off : i \in 1..Len(chunks)} |-> (CHOOSE i \in 1..Len(chunks) : chunks[i].off = o)]
GotLen == [o \in DOMAIN Got |-> chunks[Got[o]].len]
Segs == MissSegments(GotLen, size)
Exact == MissExact(Segs, GotLen, size)
CompleteIffNone == (Segs = <<>>) <=> Complete(GotLen, size)
IntervalsAgree == Mat(MissIntervals(chunks, size)) = Mat(Segs)        \* the interval form used for large files is the same function
Emit == CSVWrite("%1$s", <<ToJson([size |-> size, chunks |-> chunks, segs |-> Segs])>>, IOEnv.VERIF_OUT)
=============================================================================
