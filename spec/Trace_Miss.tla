------------------------------ MODULE Trace_Miss ------------------------------
(* C16, implementation -> specification: range reports computed by the real   *)
(* Package.StatisticalMissSegments for seeded random large chunk sets (up to  *)
(* 255 and more gaps, sizes to a few thousand bytes), judged by the           *)
(* declarative MissExact.                                                      *)
EXTENDS Attach, Json, IOUtils
Trace == ndJsonDeserialize(IOEnv.VERIF_TRACE)
VARIABLE l
Init == l = 0
Next == l = 0 /\ l' \in 1..Len(Trace)
E == Trace[l]
Got == [o \in {E.chunks[i].off : i \in 1..Len(E.chunks)} |->
          (CHOOSE i \in 1..Len(E.chunks) : E.chunks[i].off = o)]
GotLen == [o \in DOMAIN Got |-> E.chunks[Got[o]].len]
ReportExact == l = 0 \/ MissExact(E.segs, GotLen, E.size)
ReportIsSpec == l = 0 \/ Mat(E.segs) = Mat(MissSegments(GotLen, E.size))
\* the report on the wire is the 0x9212 body of exactly these ranges, and the parser reads the same ranges back -
\* also when its receiver has read another report before
Plain(ss) == Mat([i \in 1..Len(ss) |-> [off |-> ss[i].off, len |-> ss[i].len]])
WireExact == l = 0 \/ ~E.haswire \/ Mat(E.wire) = Mat(Body9212(E.name, 2, MissSegments(GotLen, E.size)))
\* a report that was handed out is not changed by computing the next one (observed by the harness)
HeldReportStable == l = 0 \/ "prevsame" \notin DOMAIN E \/ E.prevsame
ReadBack == l = 0 \/ ~E.haswire \/ (Plain(E.parsed) = Plain(E.segs) /\ Plain(E.parsed2) = Plain(E.segs))
=============================================================================
