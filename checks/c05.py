"""C05 Sub-package reassembly delivers exactly the original message (DESIGN.md section 5, C05)."""
import json
from checks import extract_common as xc

LEVEL = "model_checking"


def check(ctx):
    thorough = ctx.tier == "thorough"
    ctx.build()
    cfgs = [dict(NA=3, NB=0, MaxSteps=6, MaxDup=1, MaxBad=1, Ver=0),
            dict(NA=2, NB=2, MaxSteps=6, MaxDup=1, MaxBad=1, Ver=1)]
    if thorough:
        cfgs = [dict(NA=4, NB=0, MaxSteps=8, MaxDup=2, MaxBad=1, Ver=0),
                dict(NA=3, NB=2, MaxSteps=8, MaxDup=1, MaxBad=1, Ver=1),
                dict(NA=1, NB=3, MaxSteps=7, MaxDup=1, MaxBad=2, Ver=0)]
    xc.mc_subpkg(ctx, cfgs)
    xc.mc_stream(ctx, [(5, "{}"), (7, "{}")])   # transfers whose parts are cut and coalesced by the transport
    xc.trace_extract(ctx, 300 if thorough else 40)
    xc.oversized_transfers(ctx)
    live(ctx)
    ctx.cov["rule"] = ("MC_SubPkg: every behaviour of a terminal sending up to two sub-packaged messages (packet 1 first, others any order, "
                       "duplicates, impossible numbers 0 and N+1, a plain message) up to MaxSteps frames, each in its own read; C05 invariants "
                       "on the spec; each behaviour replayed on the real extractor. Random sessions (totals to 255, bodies to 1023 bytes, "
                       "re-segmented) validated by Trace_Extract. MC_Stream variants 5 and 7: transfers cut into reads at every pair of positions.")
    ctx.cov["exhaustive"] = True
    ctx.assumptions += ["totals announced consistently by all packets of a transfer; packet bodies non-empty (the property's domain)",
                        "the body of an incomplete part message is not judged (it shares storage with the completed message)"]


def live(ctx):
    try:
        from checks import live_common
    except ImportError:
        return
    live_common.live_subpackages(ctx)


def replay(ctx, path):
    ctx.build()
    xc.replay_any(ctx, json.load(open(path))["replay"])
