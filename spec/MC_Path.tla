------------------------------- MODULE MC_Path -------------------------------
(* C19: every file name of up to MaxSegs segments over {"..", ".", "", "a",  *)
(* "b c"}, optionally rooted, plus names at the wire limits built from       *)
(* repeated "../".  Each is classified by the specification and emitted; the *)
(* harness drives a complete real upload session per name in a sandbox and   *)
(* walks the file tree.                                                      *)
EXTENDS Path, Json, CSV, IOUtils
CONSTANTS MaxSegs

\* the terminal's own directory name (the sandbox phone 13800000001) extended by a character: a sibling
\* whose name has the directory's name as a string prefix
PhoneX == <<49, 51, 56, 48, 48, 48, 48, 48, 48, 48, 49, 120>>
\* (also segments that end in dots or consist of three dots: not "..", but close to it for code that splits names at dots)
Segs == {DotDot, Dot, <<>>, <<97>>, <<98, 32, 99>>, PhoneX, <<120, 46, 46>>, <<46, 46, 46>>, <<97, 46, 98, 46, 46, 46>>}
VARIABLES segs, rooted
\* names at the wire limits: "../" repeated, up to 255 bytes in 0x1210 and 50 in a chunk header
Long == {[i \in 1..(k + 1) |-> IF i <= k THEN DotDot ELSE <<120>>] : k \in {1, 2, 5, 16, 84}}
Init == \/ segs = <<>> /\ rooted \in {FALSE, TRUE}
        \/ segs \in Long /\ rooted = FALSE
Next == Len(segs) < MaxSegs /\ segs \notin Long /\ \E g \in Segs : segs' = Append(segs, g) /\ UNCHANGED rooted

Name == (IF rooted THEN <<Slash>> ELSE <<>>) \o JoinSegs(segs)
\* sanity of the classification: escaping names resolve outside, plain names resolve to themselves
ClassSane == LET n == Name r == Resolve(n) IN
    /\ Class(n) = "plain" => r.up = 0 /\ r.path = <<n>>
    /\ Class(n) = "escaping" => ~Confined(<<49>>, <<<<49>>>> \o Split(n))
    /\ Class(n) \in {"plain", "nested"} => Confined(<<49>>, <<<<49>>>> \o Split(n))
Emit == Len(Name) > 0 => CSVWrite("%1$s", <<ToJson([name |-> Name, class |-> Class(Name), up |-> Resolve(Name).up,
                                                     path |-> Resolve(Name).path])>>, IOEnv.VERIF_OUT)
=============================================================================
