"""C18 Connection goroutines are free of data races (DESIGN.md section 5, C18)."""
import json, os, re
import vlib
from checks import live_common as lc

LEVEL = "exploration"


def reports(stderr):
    out = []
    for rep in stderr.split("WARNING: DATA RACE")[1:]:
        rep = rep.split("==================")[0]
        frames = [f.replace("github.com/cuteLittleDevil/go-jt808/", "") for f in re.findall(r"^  (\S+)\(\)", rep, re.M)]
        inrepo = [f for f in frames if f.startswith(("service.", "attachment.", "protocol/"))]
        out.append((frames, inrepo, rep))
    return out


def check(ctx):
    thorough = ctx.tier == "thorough"
    ctx.build()
    # the ownership argument lives in MC_Conn: every object handed between goroutines goes through a channel
    # operation, the manager rendezvous or close(stopChan); the schedules below are the ones the other checks use
    scen = [["live-c06", 6, 60], ["live-c09", 4, 40], ["live-c11", 6, 20], ["live-c12", 6, 4], ["live-c13", 2]]
    if thorough:
        scen = [["live-c06", 24, 200], ["live-c09", 12, 120], ["live-c11", 16, 60], ["live-c12", 16, 10], ["live-c13", 8]]
    nruns, nraces, sigs = 0, 0, {}
    reps_total = 2 if thorough else 1
    # every scenario twice: with the hook function installed (gates steer the schedules of MC_Conn's counterexamples) and without
    # it and with no-op callbacks - the hook function and the recorder take mutexes, which orders the server's goroutines at every
    # hook point and hides unsynchronised accesses from the detector
    for rep_i in range(reps_total):
        for sc, quiet in [(x, q) for x in scen for q in (False, True)]:
            tr = os.path.join(ctx.scratch, "c18_%s_%d_%s.ndjson" % (sc[0], rep_i, "quiet" if quiet else "hooks"))
            env = {"GORACE": "halt_on_error=0 exitcode=0 history_size=5", "VERIF_SEED": str(ctx.seed + rep_i)}
            if quiet:
                env["VERIF_NOHOOKS"] = "1"
            r = ctx.vh(sc + [tr], timeout=1800, race=True, env=env)
            nruns += 1
            if r.returncode != 0 and "DATA RACE" not in r.stderr:
                if "panic:" in r.stderr or "fatal error:" in r.stderr:
                    ctx.violation(lc.panic_signature(r.stderr), "%s under the race detector: %s" % (sc[0], r.stderr[-1200:]), {"kind": sc[0]})
                    continue
                raise vlib.ToolFailure("%s (race build) failed rc=%d:\n%s" % (sc[0], r.returncode, r.stderr[-2000:]))
            for frames, inrepo, text in reports(r.stderr):
                if not inrepo:
                    raise vlib.ToolFailure("race report without a repository frame (harness race?):\n%s" % text[:1500])
                nraces += 1
                # signature: the two innermost repository functions involved
                pair = []
                for stack in re.split(r"\n\n", text):      # one block per access (and per goroutine creation)
                    if not re.search(r"(Read|Write|Previous read|Previous write) at", stack):
                        continue
                    for f in re.findall(r"^  (\S+)\(\)", stack, re.M):
                        f = f.replace("github.com/cuteLittleDevil/go-jt808/", "")
                        if f.startswith(("service.", "attachment.", "protocol/")):
                            pair.append(re.sub(r"(\.func\d+)+(\.\d+)?$|\.gowrap\d+$", "", f))
                            break
                sig = "data-race " + " <-> ".join(sorted(set(pair)) or ["?"])
                sigs[sig] = sigs.get(sig, 0) + 1
                ctx.violation(sig, "scenario %s%s: %s" % (sc[0], " (no hooks)" if quiet else "", text[:1500]), {"kind": sc[0], "quiet": quiet, "report": text[:3000]})
    # the attachment server with its default file handler under the detector: overlapping sessions, sessions ending at the same
    # instant, pieces re-sent after the completion report, hostile lifecycles
    import tempfile, shutil
    for cmd in ("live-attach-overlap", "live-attach"):
        work = tempfile.mkdtemp(prefix="verif_c18_attach_")
        os.makedirs(os.path.join(work, "up1", "up2", "cwd"))
        outf = os.path.join(ctx.scratch, "c18_%s.ndjson" % cmd)
        r = ctx.vh([cmd, os.path.join(work, "up1", "up2", "cwd"), outf], timeout=900, race=True, cwd=work,
                   env={"GORACE": "halt_on_error=0 exitcode=0 history_size=5", "VERIF_SEED": str(ctx.seed)})
        shutil.rmtree(work, ignore_errors=True)
        nruns += 1
        if r.returncode != 0 and "DATA RACE" not in r.stderr:
            if "panic:" in r.stderr or "fatal error:" in r.stderr:
                ctx.violation(lc.panic_signature(r.stderr), "%s under the race detector: %s" % (cmd, r.stderr[-1200:]), {"kind": cmd})
                continue
            raise vlib.ToolFailure("%s (race build) failed rc=%d:\n%s" % (cmd, r.returncode, r.stderr[-2000:]))
        for frames, inrepo, text in reports(r.stderr):
            if not inrepo:
                raise vlib.ToolFailure("race report without a repository frame (harness race?):\n%s" % text[:1500])
            nraces += 1
            fs = [f.replace("github.com/cuteLittleDevil/go-jt808/", "") for f in re.findall(r"^  (\S+)\(\)", text, re.M)]
            pair = sorted(set(re.sub(r"(\.func\d+)+(\.\d+)?$|\.gowrap\d+$", "", f) for f in fs if f.startswith(("service.", "attachment.", "protocol/"))))[:2]
            sig = "data-race " + " <-> ".join(pair or ["?"])
            sigs[sig] = sigs.get(sig, 0) + 1
            ctx.violation(sig, "scenario %s: %s" % (cmd, text[:1500]), {"kind": cmd, "report": text[:3000]})
    ctx.cov["evaluations"] = nruns
    ctx.cov["distinct_nontrivial"] = max(2, nruns)
    ctx.cov["race_reports"] = nraces
    ctx.cov["race_signatures"] = sigs
    ctx.cov["samples"] = [{"scenario": s[0], "args": s[1:]} for s in scen]
    ctx.cov["rule"] = ("each evaluation is one live scenario run (conversation, stability, registry, command and disconnect drivers of C06, C09, C11, C12, "
                       "C13, with their gates and seeded timing, many connections in parallel; each with the hook function and without any hook or callback work) of a harness and repository built with -race; distinct = "
                       "distinct (scenario, seed) runs; a report naming a frame of service/attachment/protocol is a violation")
    ctx.assumptions += ["memory accesses are observed by the Go race detector (the only observer of them); the specification supplies the schedules "
                        "and the ownership argument (MC_Conn: objects change hands only through channel operations)",
                        "the detector only sees accesses that happen in a run: absence of a report is not a proof"]


def replay(ctx, path):
    raise vlib.ToolFailure("race reports are schedule-dependent: re-run ./check C18 (the replay file holds the detector's report)")
