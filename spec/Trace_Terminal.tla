---------------------------- MODULE Trace_Terminal ----------------------------
(* C20: the terminal simulator against the frame specification and the reply  *)
(* specification.  For configurations chosen by MC_Terminal the harness runs   *)
(* the real simulator and a live server and records, per generated frame:      *)
(* version, phone, command, index in the sequence, the frame, the simulator's  *)
(* predicted reply for a platform serial, and the reply the live server sent.  *)
EXTENDS Replies, TLC, Json, IOUtils
Trace == ndJsonDeserialize(IOEnv.VERIF_TRACE)
VARIABLE l
Init == l = 0
Next == l = 0 /\ l' \in 1..Len(Trace)
E == Trace[l]
D == Decode(E.frame)
\* phone digits as decimal values, leading zeros aside (an all-zero phone keeps its zeros in the library's rendering)
RECURSIVE Strip(_)
Strip(d) == IF Len(d) > 1 /\ d[1] = 0 THEN Strip(Tail(d)) ELSE d
SamePhone(a, b) == Strip(a) = Strip(b)
\* accepted by the frame decoder, with that command id, phone and serial
Accepted == l = 0 \/ (D.ok /\ D.id = E.cmd /\ SamePhone(D.digits, E.phone) /\ D.serial = E.idx % 65536 /\ D.frag = 0)
\* the header layout of that version: 2019 has the version bit, the version byte and a 10-byte phone
Layout == l = 0 \/ (D.ok => (D.ver = (IF E.ver = 3 THEN 1 ELSE 0) /\ Len(D.phone) = (IF E.ver = 3 THEN 10 ELSE 6)))
\* canonical: exactly what the encoder side of the specification produces for those fields
Canonical == l = 0 \/ (D.ok => Mat(E.frame) = Mat(TerminalFrame([id |-> D.id, rsv15 |-> 0, ver |-> D.ver, frag |-> 0, enc3 |-> 0,
                              verbyte |-> 1, phone |-> D.phone, serial |-> D.serial, total |-> 0, no |-> 0, body |-> D.body])))
\* the reply the simulator predicts, and the reply the real server sent, are the specification's reply
ReplyBearingJudged == D.ok /\ D.id \in ReplyBearing /\ Judged(D) /\ ReplyFor(D).has
PredictedReply == l = 0 \/ ~E.haspred \/ ~ReplyBearingJudged \/ Mat(E.pred) = Mat(ReplyFrame(D, E.pser))
LiveReply == l = 0 \/ ~E.haslive \/ ~ReplyBearingJudged \/ Mat(E.live) = Mat(ReplyFrame(D, E.livepser))
\* the body parses with the matching message type and re-encodes to the identical bytes (observed by the harness)
BodyRoundTrip == l = 0 \/ E.bodyok
\* a frame the simulator returned keeps its bytes while the next one is generated (observed by the harness)
HeldFrameStable == l = 0 \/ "prevsame" \notin DOMAIN E \/ E.prevsame
=============================================================================
