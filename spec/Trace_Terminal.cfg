INIT Init
NEXT Next
INVARIANTS Accepted Layout Canonical PredictedReply LiveReply BodyRoundTrip HeldFrameStable
CHECK_DEADLOCK FALSE
