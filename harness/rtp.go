package main

// Adapter for spec/Rtp.tla (C17): the decode loop of the shipped example, a fresh Packet per step.

import (
	"bytes"
	"encoding/binary"
	"errors"
	"fmt"
	"math/rand"
	"os"
	"reflect"

	"github.com/cuteLittleDevil/go-jt808/protocol/jt1078"
)

type RtpStep struct {
	Class   string `json:"class"`
	V       int    `json:"v"`
	P       int    `json:"p"`
	X       int    `json:"x"`
	CC      int    `json:"cc"`
	M       int    `json:"m"`
	PT      int    `json:"pt"`
	Seq     int    `json:"seq"`
	Sim     B      `json:"sim"`
	Channel int    `json:"channel"`
	DT      int    `json:"dt"`
	Mark    int    `json:"mark"`
	TS      B      `json:"ts"`
	Ival1   int    `json:"ival1"`
	Ival2   int    `json:"ival2"`
	Blen    int    `json:"blen"`
	Payload B      `json:"payload"`
	Detail  string `json:"detail,omitempty"`
	rest    []byte
}

func rtpOne(data []byte, p *jt1078.Packet) (st RtpStep) {
	var (
		rest []byte
		err  error
	)
	if pn := protect(func() { rest, err = p.Decode(data) }); pn != "" {
		return RtpStep{Class: "Panic", Detail: pn}
	}
	switch {
	case err == nil:
	case errors.Is(err, jt1078.ErrHeaderLength2Short) || errors.Is(err, jt1078.ErrBodyLength2Short):
		return RtpStep{Class: "Short"}
	case errors.Is(err, jt1078.ErrUnqualifiedData):
		return RtpStep{Class: "Unqualified"}
	default:
		return RtpStep{Class: "Error", Detail: err.Error()}
	}
	st = renderPacket(p)
	st.rest = rest
	return st
}

// renderPacket: the fields of a decoded Packet as they read now
func renderPacket(p *jt1078.Packet) RtpStep {
	ts := make([]byte, 8)
	binary.BigEndian.PutUint64(ts, p.Timestamp)
	return RtpStep{Class: "Packet", V: int(p.Flag.V), P: int(p.Flag.P), X: int(p.Flag.X), CC: int(p.Flag.CC), M: int(p.Flag.M),
		PT: int(p.Flag.PT), Seq: int(p.Seq), Sim: digitsOf(p.Sim), Channel: int(p.LogicChannel), DT: int(p.DataType),
		Mark: int(p.SubcontractType), TS: ts, Ival1: int(p.LastIFrameInterval), Ival2: int(p.LastFrameInterval),
		Blen: int(p.DataBodyLen), Payload: append(B{}, p.Body...)}
}

// rtpLoop mirrors Rtp!Loop; fresh=true uses a new Packet per step (the shipped example's pattern).
func rtpLoop(data []byte, fresh bool) []RtpStep {
	var out []RtpStep
	cur := exact(data)
	p := jt1078.NewPacket()
	for steps := 0; ; steps++ {
		if len(cur) == 0 {
			return append(out, RtpStep{Class: "End"})
		}
		if steps > len(data)+2 {
			return append(out, RtpStep{Class: "NoProgress"})
		}
		if fresh {
			p = jt1078.NewPacket()
		}
		st := rtpOne(cur, p)
		out = append(out, st)
		if st.Class != "Packet" {
			return out
		}
		if len(st.rest) >= len(cur) {
			return append(out, RtpStep{Class: "NoProgress"})
		}
		cur = st.rest
	}
}

// rtpLoopWith: the loop with one caller-supplied Packet that is never renewed
func rtpLoopWith(data []byte, p *jt1078.Packet) []RtpStep {
	var out []RtpStep
	cur := exact(data)
	for steps := 0; ; steps++ {
		if len(cur) == 0 {
			return append(out, RtpStep{Class: "End"})
		}
		if steps > len(data)+2 {
			return append(out, RtpStep{Class: "NoProgress"})
		}
		st := rtpOne(cur, p)
		out = append(out, st)
		if st.Class != "Packet" {
			return out
		}
		if len(st.rest) >= len(cur) {
			return append(out, RtpStep{Class: "NoProgress"})
		}
		cur = st.rest
	}
}

type rtpCase struct {
	Data B         `json:"data"`
	Out  []RtpStep `json:"out"`
	Kind string    `json:"kind,omitempty"`
}

func stepEq(a, b RtpStep) bool {
	a.rest, b.rest, a.Detail, b.Detail = nil, nil, "", ""
	if a.Class != b.Class {
		return false
	}
	if a.Class != "Packet" {
		return true
	}
	return reflect.DeepEqual(normStep(a), normStep(b))
}
func normStep(s RtpStep) RtpStep {
	if s.Sim == nil {
		s.Sim = B{}
	}
	if s.TS == nil {
		s.TS = B{}
	}
	if s.Payload == nil {
		s.Payload = B{}
	}
	return s
}

func init() {
	cmds["c17-replay"] = func(a []string) {
		os.Stdout, _ = os.Open(os.DevNull) // the decoder prints rejected headers
		out := newND(a[1])
		defer out.close()
		n := 0
		classes := map[string]int{}
		var samples []any
		var prevData []byte
		var prevCase rtpCase
		var heldPkt *jt1078.Packet
		var heldStep RtpStep
		err := readND(a[0], func(i int, raw []byte) error {
			var c rtpCase
			if err := jsonUnmarshal(raw, &c); err != nil {
				return err
			}
			n++
			got := rtpLoop(c.Data, true)
			// a Packet decoded from the previous case is the caller's: it reads the same after this case's packets (other SIMs,
			// other payloads) have been decoded
			if heldPkt != nil {
				var now RtpStep
				if pn := protect(func() { now = renderPacket(heldPkt) }); pn != "" {
					now = RtpStep{Class: "Panic", Detail: pn}
				}
				if !stepEq(now, heldStep) {
					out.put(mismatch{"decoded-packet-changed-by-a-later-decode", fmt.Sprintf("decoded %+v, after the next stream it reads %+v", heldStep, now), []rtpCase{prevCase, c}})
				}
				heldPkt = nil
			}
			if hp := jt1078.NewPacket(); true {
				if st := rtpOne(exact(c.Data), hp); st.Class == "Packet" {
					heldPkt, heldStep = hp, st
					// at once: another terminal's packet (the same bytes under a different SIM number, digits and length of the
					// number changed) is decoded by a Packet of its own
					for _, fill := range []byte{0x98, 0x00, 0x07} {
						other := exact(c.Data)
						for k := 8; k < 14 && k < len(other); k++ {
							other[k] = fill ^ byte(k)&1
						}
						rtpOne(other, jt1078.NewPacket())
						if now := renderPacket(hp); !stepEq(now, st) {
							out.put(mismatch{"decoded-packet-changed-by-a-later-decode", fmt.Sprintf("decoded %+v; after a packet with SIM bytes %x was decoded it reads %+v", st, other[8:14], now), c})
							break
						}
					}
				}
			}
			last := c.Out[len(c.Out)-1].Class
			classes[fmt.Sprintf("%d packets then %s", len(c.Out)-1, last)]++
			if len(samples) < 3 && len(c.Out) == 3 {
				samples = append(samples, c)
			}
			if len(got) != len(c.Out) {
				out.put(mismatch{"loop-length-differs then-" + last, fmt.Sprintf("got %d steps %+v", len(got), got), c})
				return nil
			}
			// the same stream through a Packet that has been used before: for the previous case cut short (body too short), for the
			// previous case in full, then for this stream without ever being renewed - nothing of its history may show
			reused := jt1078.NewPacket()
			if len(prevData) > 1 {
				rtpOne(exact(prevData[:len(prevData)-1]), reused)
				rtpOne(exact(prevData[:len(prevData)/2]), reused)
			}
			if len(c.Data)%2 == 0 && len(prevData) > 0 { // (chosen by content, not position: a replay sees the same history)
				rtpOne(exact(prevData), reused)
			}
			again := rtpLoopWith(c.Data, reused)
			pair := []rtpCase{prevCase, c} // the replay needs the predecessor as well
			prevData = append(prevData[:0], c.Data...)
			prevCase = c
			if len(again) != len(got) {
				out.put(mismatch{"reused-packet-differs steps", fmt.Sprintf("fresh %d steps, reused %d steps", len(got), len(again)), pair})
				return nil
			}
			for k := range again {
				if !stepEq(again[k], got[k]) {
					out.put(mismatch{"reused-packet-differs class=" + got[k].Class, fmt.Sprintf("step %d fresh %+v reused %+v", k, got[k], again[k]), pair})
					return nil
				}
			}
			// locality: whatever follows the first packet in the buffer (also more than 64 KiB of it) changes neither the packet nor
			// where the remainder starts
			if i%20 == 0 && got[0].Class == "Packet" {
				for h := 0; h <= 40; h += 4 {
					t := 65536 - len(c.Data) + h
					big := append(append([]byte{}, c.Data...), make([]byte, t)...)
					st := rtpOne(exact(big), jt1078.NewPacket())
					if !stepEq(st, got[0]) || len(st.rest) != len(got[0].rest)+t {
						out.put(mismatch{"long-buffer-differs class=" + st.Class, fmt.Sprintf("%d bytes appended: got %+v (rest %d) want %+v (rest %d)", t, st, len(st.rest), got[0], len(got[0].rest)+t), c})
						return nil
					}
				}
			}
			for k := range got {
				if !stepEq(got[k], c.Out[k]) {
					sig := "step-differs spec=" + c.Out[k].Class + " impl=" + got[k].Class
					if got[k].Class == "Packet" && c.Out[k].Class == "Packet" {
						sig = fmt.Sprintf("packet-fields-differ dt=%d", c.Out[k].DT)
					}
					out.put(mismatch{sig, fmt.Sprintf("step %d got %+v want %+v", k, got[k], c.Out[k]), c})
					return nil
				}
			}
			return nil
		})
		if err != nil {
			die(err)
		}
		out.put(summary{Summary: true, Cases: n, Distinct: n, Classes: classes, Samples: samples})
	}

	cmds["c17-gen"] = func(a []string) {
		os.Stdout, _ = os.Open(os.DevNull)
		n := atoi(a[0])
		out := newND(a[1])
		defer out.close()
		r := newRand(1717)
		for i := 0; i < n; i++ {
			var data []byte
			kind := "stream"
			if i%10 == 9 {
				kind = "random"
				data = make([]byte, r.Intn(40))
				r.Read(data)
				if r.Intn(2) == 0 && len(data) >= 4 {
					copy(data, []byte{0x30, 0x31, 0x63, 0x64})
				}
			} else {
				np := 1 + r.Intn(3)
				for k := 0; k < np; k++ {
					p := randRtp(r)
					if k > 0 && r.Intn(2) == 0 { // same SIM as the first packet except for one BCD byte
						copy(p[8:14], data[8:14])
						p[8+r.Intn(6)] = byte(r.Intn(10)<<4 | r.Intn(10))
					}
					data = append(data, p...)
				}
				if r.Intn(2) == 0 {
					data = data[:r.Intn(len(data)+1)]
					kind = "cut"
				}
			}
			out.put(rtpCase{Data: data, Out: rtpLoop(data, true), Kind: kind})
		}
	}
}

func randRtp(r *rand.Rand) []byte {
	dt := r.Intn(16)
	if r.Intn(2) == 0 {
		dt = r.Intn(5)
	}
	b := []byte{0x30, 0x31, 0x63, 0x64, byte(r.Intn(256)), byte(r.Intn(256)), byte(r.Intn(256)), byte(r.Intn(256))}
	sim := make([]byte, 6)
	for k := range sim {
		sim[k] = byte(r.Intn(10)<<4 | r.Intn(10))
	}
	if r.Intn(3) == 0 {
		sim[0], sim[1] = 0, 0
		if r.Intn(2) == 0 {
			sim[2], sim[3] = 0, 0 // a short number: 000000001234
		}
	}
	b = append(b, sim...)
	b = append(b, byte(r.Intn(256)), byte(dt<<4|r.Intn(16)))
	if dt != 4 {
		ts := make([]byte, 8)
		r.Read(ts)
		b = append(b, ts...)
	}
	if dt <= 2 {
		iv := make([]byte, 4)
		r.Read(iv)
		b = append(b, iv...)
	}
	n := []int{0, 1, r.Intn(40), 949, 950, 951, r.Intn(1200)}[r.Intn(7)]
	pay := make([]byte, n)
	r.Read(pay)
	if n > 4 && r.Intn(3) == 0 {
		copy(pay, []byte{0x30, 0x31, 0x63, 0x64})
	}
	// payloads that begin like something a decoder might want to "understand": the body is opaque, whatever it starts with
	switch r.Intn(10) {
	case 0: // an audio chip's frame head: 00 01 XX 00 followed by XX 16-bit samples
		xx := 1 + r.Intn(60)
		pay = append([]byte{0, 1, byte(xx), 0}, make([]byte, 2*xx)...)
		r.Read(pay[4:])
	case 1: // H.264 / H.265 start codes, JPEG, RIFF, ADTS
		magic := [][]byte{{0, 0, 0, 1, 0x67}, {0, 0, 1, 0x65}, {0xff, 0xd8, 0xff, 0xe0}, []byte("RIFF"), {0xff, 0xf1, 0x50, 0x80}, {0, 0, 0, 1, 0x40, 1}}[r.Intn(6)]
		pay = append(append([]byte{}, magic...), pay...)
		if len(pay) > 1200 {
			pay = pay[:1200]
		}
	}
	n = len(pay)
	b = append(b, byte(n>>8), byte(n))
	return append(b, pay...)
}

var _ = bytes.Equal
