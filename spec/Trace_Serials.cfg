INIT Init
NEXT Next
INVARIANTS ReplyNumbered AllArrived
CHECK_DEADLOCK FALSE
