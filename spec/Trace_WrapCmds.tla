---------------------------- MODULE Trace_WrapCmds ----------------------------
(* C12 across the 16-bit wrap of the platform serial: four commands outstanding *)
(* on one connection while the serial passes 65535 -> 0.  Each is written once  *)
(* with a serial of its own (the four consecutive values starting at `first`),   *)
(* and each caller gets the response that echoes the serial of its own command.  *)
EXTENDS Integers, Sequences, FiniteSets, Json, IOUtils
Trace == ndJsonDeserialize(IOEnv.VERIF_TRACE)
VARIABLE l
Init == l = 0
Next == l = 0 /\ l' \in 1..Len(Trace)
E == Trace[l]
Judged == l > 0 /\ "ev" \in DOMAIN E /\ E.ev = "wrapcmds"
Expected == {(E.first + i) % 65536 : i \in 0..3}
FreshSerials == Judged => /\ Len(E.written) = 4
                          /\ {E.written[i] : i \in 1..Len(E.written)} = Expected
OwnResponses == Judged => /\ Len(E.cmds) = 4
                          /\ \A i \in 1..Len(E.cmds) : E.cmds[i].kind = "resp" /\ E.cmds[i].echo = E.cmds[i].seq
                          /\ {E.cmds[i].seq : i \in 1..Len(E.cmds)} = Expected
=============================================================================
