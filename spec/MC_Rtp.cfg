INIT Init
NEXT Next
CONSTANTS
  MaxPkts = 2
  MaxPay = 2
INVARIANTS LoopExact Emit JunkClassified EmitJunk
CHECK_DEADLOCK FALSE
