"""Shared drivers for the frame-extractor checks (C04, C05, C14)."""
import json, os
import vlib
from checks.c01 import run_results


def mc_subpkg(ctx, configs):
    for i, c in enumerate(configs):
        cases = os.path.join(ctx.scratch, "subpkg_scripts_%d.ndjson" % i)
        consts = {"NA": c["NA"], "NB": c.get("NB", 0), "MaxSteps": c["MaxSteps"], "MaxDup": c.get("MaxDup", 1),
                  "MaxBad": c.get("MaxBad", 1), "MaxRestart": c.get("MaxRestart", 1), "MaxPlain": c.get("MaxPlain", 1), "Ticks": c.get("Ticks", "{}"), "Record": "TRUE", "Ver": c.get("Ver", 0)}
        ctx.tlc("MC_SubPkg", constants=consts, env={"VERIF_OUT": cases}, workers=12, name="MC_SubPkg_%s" % json.dumps(c, sort_keys=True))
        res = os.path.join(ctx.scratch, "subpkg_res_%d.ndjson" % i)
        ctx.vh_ok(["extract-replay", cases, res], timeout=1500)
        run_results(ctx, res, "MC_SubPkg-scripts-replayed-on-service.packageParse")


def mc_stream(ctx, variants):
    for v, sizes in variants:
        cases = os.path.join(ctx.scratch, "stream_%d.ndjson" % v)
        ctx.tlc("MC_Stream", constants={"Variant": v, "Sizes": sizes}, env={"VERIF_OUT": cases}, workers=12, name="MC_Stream_%d" % v)
        res = os.path.join(ctx.scratch, "stream_res_%d.ndjson" % v)
        ctx.vh_ok(["stream-replay", cases, res], timeout=1500)
        run_results(ctx, res, "every-cut-pair-replayed-on-the-extractor variant=%d" % v)


def trace_extract(ctx, n):
    tr = os.path.join(ctx.scratch, "extract_trace.ndjson")
    ctx.vh_ok(["extract-gen", n, tr])
    events = vlib.read_nd(tr, quoted=False)
    verdict = os.path.join(ctx.scratch, "extract_verdict.json")
    res = ctx.tlc("Trace_Extract", env={"VERIF_TRACE": tr, "VERIF_OUT": verdict}, workers=1, timeout=2400)
    if res["distinct"] != len(events) + 1 or not os.path.exists(verdict):
        raise vlib.ToolFailure("Trace_Extract consumed %d of %d events:\n%s" % (res["distinct"] - 1, len(events), res["out"][-2000:]))
    v = vlib.read_nd(verdict)[-1]
    sess = {}
    for e in events:
        sess.setdefault(e["sess"], []).append(e)
    for b in v["bad"]:
        e = events[b["l"] - 1]
        kinds = ",".join(sorted(set(o["kind"] for o in e.get("out", [])))) or "none"
        ctx.violation("%s impl-out=%s" % (b["what"], kinds),
                      "session %d event %d rejected by Trace_Extract: impl out=%s rereq=%s err=%s" % (
                          b["sess"], b["l"], [(o["kind"], o["id"], o["no"]) for o in e.get("out", [])], e.get("rereq"), e.get("err")),
                      {"kind": "extract-session", "events": sess[b["sess"]]})
    ctx.note_impl("extractor-sessions-validated-by-Trace_Extract", len(sess), events=len(events), rejected=len(v["bad"]))
    s0 = sess[min(sess)]
    ctx.sample({"from": "impl-session", "ops": [[e["op"], len(e.get("bytes", [])), e.get("d", 0),
                                                 [(o["kind"], o["no"], o["total"]) for o in e.get("out", [])]] for e in s0][:14]})


def oversized_transfers(ctx):
    """transfers announcing totals no re-request can list (256 .. 65535), left idle and continued, and the largest transfer the header
    can announce carried through to its end (65535 one-byte packages): no panic, the extractor keeps working, the complete message
    has every byte"""
    hx = os.path.join(ctx.scratch, "extract_hostile.ndjson")
    ctx.vh_ok(["extract-hostile", hx], timeout=300)
    hev = vlib.read_nd(hx, quoted=False)
    for e in hev:
        if e["panic"] or not e["alive"]:
            ctx.violation("extractor-panic total=%d" % e["total"] if e["panic"] else "extractor-dead-after-oversized-transfer total=%d" % e["total"],
                          "a transfer announcing %d packages, left idle and continued (variant %d): %s" % (e["total"], e["variant"], e["panic"] or "no frame extracted afterwards"),
                          {"kind": "extract-hostile", "event": e})
    ctx.note_impl("oversized-transfers-left-idle-through-the-extractor", len(hev))


def replay_any(ctx, r):
    if "steps" in (r.get("case") or {}):
        f = os.path.join(ctx.scratch, "one.ndjson"); open(f, "w").write(json.dumps(r["case"]) + "\n")
        out = os.path.join(ctx.scratch, "one_res.ndjson")
        ctx.vh_ok(["extract-replay", f, out]); run_results(ctx, out, "replay")
    elif "frames" in (r.get("case") or {}):
        f = os.path.join(ctx.scratch, "one.ndjson"); open(f, "w").write(json.dumps({k: v for k, v in r["case"].items() if k in ("frames", "expect", "counts") and v is not None}) + "\n")
        out = os.path.join(ctx.scratch, "one_res.ndjson")
        ctx.vh_ok(["stream-replay", f, out]); run_results(ctx, out, "replay")
    elif r.get("kind") == "extract-session":
        f = os.path.join(ctx.scratch, "one_sess.ndjson"); open(f, "w").write("\n".join(json.dumps(e) for e in r["events"]) + "\n")
        tr = os.path.join(ctx.scratch, "extract_trace.ndjson")
        ctx.vh_ok(["extract-rerun", f, tr])
        verdict = os.path.join(ctx.scratch, "extract_verdict.json")
        ctx.tlc("Trace_Extract", env={"VERIF_TRACE": tr, "VERIF_OUT": verdict}, workers=1)
        for b in vlib.read_nd(verdict)[-1]["bad"]:
            ctx.violation("%s replay" % b["what"], "replayed session rejected", r)
        ctx.note_impl("replay", 1)
    else:
        raise vlib.ToolFailure("unknown replay kind")
