------------------------------ MODULE MC_Stream ------------------------------
(* C04 on the specification: a fixed stream of valid frames is cut into      *)
(* consecutive reads in every possible way (read sizes 1..MaxRead or a given *)
(* size set).  Seg: after any prefix, exactly the frames whose closing       *)
(* delimiter has arrived have been delivered, in order, and the buffer holds *)
(* exactly the unconsumed tail.                                              *)
EXTENDS Extract, Json, CSV, IOUtils
CONSTANTS Variant, MaxRead, Sizes      \* Sizes = {} means every size 1..MaxRead

P6  == <<1, 56, 0, 0, 0, 1>>
P10 == <<0, 0, 0, 0, 1, 56, 0, 0, 0, 1>>
Fr(id, ver, phone, serial, body) ==
    TerminalFrame([id |-> id, rsv15 |-> 0, ver |-> ver, frag |-> 0, enc3 |-> 0, verbyte |-> 1, phone |-> phone,
                   serial |-> serial, total |-> 0, no |-> 0, body |-> body])
FrP(id, ver, phone, serial, total, no, body) ==
    TerminalFrame([id |-> id, rsv15 |-> 0, ver |-> ver, frag |-> 1, enc3 |-> 0, verbyte |-> 1, phone |-> phone,
                   serial |-> serial, total |-> total, no |-> no, body |-> body])
\* a frame whose checksum is 7D, sent raw (the tolerated deviation): "... 7D 7E" followed by the next "7E"
Raw7D == LET x == [id |-> 2, rsv15 |-> 0, ver |-> 0, frag |-> 0, enc3 |-> 0, verbyte |-> 1, phone |-> P6,
                   serial |-> 5, total |-> 0, no |-> 0, body |-> <<0>>]
             c == XorAll(HeaderBytes(x, 1) \o <<0>>)
         IN FramedRaw7D(Payload([x EXCEPT !.body = <<c ^^ 125>>]))
Long(n) == [i \in 1..n |-> IF i % 3 = 0 THEN 126 ELSE IF i % 3 = 1 THEN 125 ELSE i % 256]
Frames ==
    CASE Variant = 1 -> << Fr(2, 0, P6, 1, <<>>), Fr(512, 1, P10, 2, <<126, 125, 1, 2>>), Fr(2, 0, P6, 3, <<>>) >>
      [] Variant = 2 -> << Fr(258, 0, P6, 65535, <<65, 66>>), Raw7D, Fr(2, 1, P10, 0, <<>>), Fr(512, 0, P6, 126, <<125, 2, 126, 126>>) >>
      [] Variant = 3 -> << Fr(512, 0, P6, 9, Long(700)), Fr(2, 0, P6, 10, <<>>), Fr(512, 1, P10, 11, Long(1023)) >>
      \* sub-packaged transfers inside the stream: an ordinary frame in front of the first part, between the parts and behind the last
      [] Variant = 4 -> << Fr(2, 0, P6, 1, <<>>), FrP(512, 0, P6, 2, 2, 1, <<1, 2, 126>>), Fr(2, 0, P6, 3, <<>>),
                           FrP(512, 0, P6, 4, 2, 2, <<125, 3>>), Fr(2, 0, P6, 5, <<>>) >>
      \* two transfers interleaved, both completed by adjacent frames (possibly in one read), then a one-of-one transfer
      [] Variant = 5 -> << FrP(2049, 0, P6, 1, 2, 1, <<1, 1>>), FrP(512, 0, P6, 2, 2, 1, <<2, 1>>), FrP(2049, 0, P6, 3, 2, 2, <<1, 2>>),
                           FrP(512, 0, P6, 4, 2, 2, <<2, 2>>), FrP(1796, 0, P6, 5, 1, 1, <<9>>), Fr(2, 0, P6, 6, <<>>) >>
      \* a long frame first, then frames shorter than any position inside it: whatever the extractor remembers about
      \* where it stopped looking in an unfinished frame is void once that frame has been taken
      [] Variant = 6 -> << Fr(512, 0, P6, 1, [i \in 1..40 |-> i]), Fr(2, 0, P6, 2, <<>>), Fr(2, 0, P6, 3, <<>>),
                           Fr(512, 0, P6, 4, <<9, 8, 7>>), Fr(2, 1, P10, 5, <<>>) >>
      \* the same inside a transfer: a long first part, then short parts and plain frames
      [] Variant = 7 -> << FrP(2049, 0, P6, 1, 3, 1, [i \in 1..40 |-> i]), Fr(2, 0, P6, 2, <<>>), FrP(2049, 0, P6, 3, 3, 3, <<3>>),
                           FrP(2049, 0, P6, 4, 3, 2, <<2>>), Fr(2, 0, P6, 5, <<>>) >>
      \* a registration among other frames (whatever a message means to the server, the bytes behind it in the read are still frames)
      [] Variant = 8 -> << Fr(2, 0, P6, 1, <<>>), Fr(256, 0, P6, 2, [i \in 1..37 |-> i % 7]), Fr(512, 0, P6, 3, <<1, 2, 3>>),
                           Fr(256, 1, P10, 4, [i \in 1..40 |-> 48 + (i % 10)]), Fr(2, 0, P6, 5, <<>>) >>
Stream == Concat(Frames)
Ends == [k \in 0..Len(Frames) |-> Len(Concat(SubSeq(Frames, 1, k)))]

\* what the extractor hands over for a stream: frames and completed messages (kind, raw frame, body)
View(o) == [kind |-> o.kind, raw |-> o.raw, body |-> o.body]
OneShot(k) == LET r == Feed(InitX, Concat(SubSeq(Frames, 1, k))) IN Mat([i \in 1..Len(r.out) |-> View(r.out[i])])

VARIABLES pos, x, out, bad
Init == pos = 0 /\ x = InitX /\ out = <<>> /\ bad = FALSE
ReadSizes == IF Sizes = {} THEN 1..MaxRead ELSE Sizes
Next == \E k \in ReadSizes :
          /\ pos + k <= Len(Stream)
          /\ LET r == Feed(x, SubSeq(Stream, pos + 1, pos + k)) IN
             /\ pos' = pos + k /\ x' = r.x /\ bad' = (bad \/ r.err \/ r.rereq # {})
             /\ out' = out \o [i \in 1..Len(r.out) |-> View(r.out[i])]

Whole == Cardinality({k \in 1..Len(Frames) : Ends[k] <= pos})
\* after any prefix, cut anyhow: exactly what the whole frames received so far yield when fed at once, in the same order
\* (every frame in stream order, a completed message directly behind the part that completed it)
Seg == /\ out = OneShot(Whole)
       /\ SelectSeq(out, LAMBDA o : o.kind # "complete") = Mat([k \in 1..Whole |-> [kind |-> Msg(Frames[k]).kind, raw |-> Frames[k], body |-> Msg(Frames[k]).body]])
       /\ x.hist = SubSeq(Stream, Ends[Whole] + 1, pos)
       /\ ~bad
FramesValid == \A k \in 1..Len(Frames) : Decode(Frames[k]).ok /\ NoInteriorFlag(Frames[k])
EmitOnce == pos = 0 => CSVWrite("%1$s", <<ToJson([frames |-> Frames, expect |-> OneShot(Len(Frames)),
                                                    counts |-> Mat([k \in 1..(Len(Frames) + 1) |-> Len(OneShot(k - 1))])])>>, IOEnv.VERIF_OUT)
=============================================================================
