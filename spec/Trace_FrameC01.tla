--------------------------- MODULE Trace_FrameC01 ---------------------------
(* C01, implementation -> specification: events recorded from the real      *)
(* Header.Encode / JTMessage.Decode on seeded random and boundary inputs    *)
(* (bodies 0..1023 over all byte values).  Every event is one state; the    *)
(* invariants tie each recorded output to the specification's operators.    *)
EXTENDS Frame, TLC, Json, IOUtils

Trace == ndJsonDeserialize(IOEnv.VERIF_TRACE)
VARIABLE l
\* successors are computed by TLC's worker threads (large stack, parallel)
Init == l = 0
Next == l = 0 /\ l' \in 1..Len(Trace)
E == Trace[l]

SrcDecodes == l = 0 \/ LET d == Decode(E.src) IN
              d.ok /\ E.srcd.ok /\ d.ver = E.srcd.ver /\ d.frag = E.srcd.frag /\ d.digits = E.srcd.digits
\* the bytes the implementation produced are the bytes the specification prescribes
OutMatches == l = 0 \/ E.out = EncodeReply(Decode(E.src), E.id, E.pser, E.body)
\* what the implementation decoded from its own output is what the specification decodes
DecMatches == l = 0 \/ LET d == Decode(E.out) IN
              /\ E.dec.ok = d.ok
              /\ d.ok => /\ E.dec.id = d.id /\ E.dec.serial = d.serial /\ E.dec.body = d.body
                         /\ E.dec.digits = d.digits /\ E.dec.ver = d.ver
\* the property itself, on the observed values only
RoundTripObserved == l = 0 \/ (/\ E.dec.ok /\ E.dec.id = E.id /\ E.dec.serial = E.pser /\ E.dec.body = E.body
                               /\ E.dec.digits = E.srcd.digits /\ E.dec.ver = E.srcd.ver)
TransparentObserved == l = 0 \/ Transparent(E.out)
=============================================================================
