-------------------------------- MODULE Layout --------------------------------
(* A small layout language for message bodies and a generic total interpreter. *)
(* A layout is a sequence of field descriptors:                                *)
(*   [k |-> "u",    n |-> name, w |-> width]        big-endian unsigned         *)
(*   [k |-> "raw",  n, w]                           w raw bytes                 *)
(*   [k |-> "bcd",  n, w]                           w BCD bytes (timestamps)    *)
(*   [k |-> "lstr", n, ln |-> lenName, lw]          length field, then bytes    *)
(*   [k |-> "rest", n]                              the remaining bytes         *)
(*   [k |-> "ulist", n, cn |-> countName, cw, w]    count, then unsigned items  *)
(*   [k |-> "list", n, cn, cw, item |-> layout]     count, then records         *)
(*   [k |-> "optulist", n, cn, cw, w]               like ulist, but count and   *)
(*                                                  items are absent when the   *)
(*                                                  list is empty (last field)  *)
(*   [k |-> "fstr", n, w]                          fixed width text, NUL padded *)
(*                                                  on the right; the value has  *)
(*                                                  no NUL bytes                 *)
(*   [k |-> "trest", n]                             like rest, value is text     *)
(*   [k |-> "items", n, cn, item, min]              records whose count is the   *)
(*                                                  earlier "u" field cn         *)
(*   [k |-> "reclen", n, w]                         byte length of the remainder *)
(*                                                  of this record               *)
(* Field names may be dotted paths into embedded structures of the              *)
(* implementation ("P9208AlarmSign.TerminalID").                                *)
(* A value maps field names to byte strings (numbers stay big-endian byte      *)
(* strings: TLC integers are 32 bit) and list names to sequences of values.    *)
EXTENDS Bytes, TLC

UVal(b) == FoldLeft(LAMBDA a, x : a * 256 + x, 0, b)        \* only applied to count/length fields (small)
UBytes(n, w) == Mat([i \in 1..w |-> (n \div (256 ^ (w - i))) % 256])

Zeros(n) == [i \in 1..n |-> 0]
TrimR(b) == LET nz == {i \in 1..Len(b) : b[i] # 0} IN IF nz = {} THEN <<>> ELSE SubSeq(b, 1, CHOOSE i \in nz : \A j \in nz : j <= i)

RECURSIVE Enc(_, _)
Enc(L, v) ==
    IF L = <<>> THEN <<>>
    ELSE LET f == L[1] r == Enc(Tail(L), v) IN
         CASE f.k \in {"u", "raw", "bcd", "rest", "trest", "reclen"} -> v[f.n] \o r
           [] f.k = "fstr" -> v[f.n] \o Zeros(f.w - Len(v[f.n])) \o r
           [] f.k = "items" -> Concat(Mat([i \in 1..Len(v[f.n]) |-> Enc(f.item, v[f.n][i])])) \o r
           [] f.k = "lstr" -> UBytes(Len(v[f.n]), f.lw) \o v[f.n] \o r
           [] f.k = "ulist" -> UBytes(Len(v[f.n]), f.cw) \o Concat(v[f.n]) \o r
           [] f.k = "optulist" -> (IF v[f.n] = <<>> THEN <<>> ELSE UBytes(Len(v[f.n]), f.cw) \o Concat(v[f.n])) \o r
           [] f.k = "list" -> UBytes(Len(v[f.n]), f.cw) \o Concat(Mat([i \in 1..Len(v[f.n]) |-> Enc(f.item, v[f.n][i])])) \o r

Put(fn, k, x) == TLCEval([y \in DOMAIN fn \cup {k} |-> IF y = k THEN x ELSE fn[y]])     \* TLCEval: no chains of lazy functions
Bad == [ok |-> FALSE, v |-> <<>>, rest |-> <<>>]

RECURSIVE Dec(_, _, _)
RECURSIVE DecItems(_, _, _, _)
\* Dec(L, b, acc) -> [ok, v, rest]
Dec(L, b, acc) ==
    IF L = <<>> THEN [ok |-> TRUE, v |-> acc, rest |-> b]
    ELSE LET f == L[1] IN
         CASE f.k \in {"u", "raw", "bcd"} ->
                IF Len(b) < f.w THEN Bad ELSE Dec(Tail(L), Drop(b, f.w), Put(acc, f.n, Take(b, f.w)))
           [] f.k \in {"rest", "trest"} -> Dec(Tail(L), <<>>, Put(acc, f.n, b))
           [] f.k = "fstr" ->
                IF Len(b) < f.w THEN Bad ELSE Dec(Tail(L), Drop(b, f.w), Put(acc, f.n, TrimR(Take(b, f.w))))
           [] f.k = "items" ->
                LET r == DecItems(f.item, b, UVal(acc[f.cn]), <<>>) IN
                IF ~r.ok THEN Bad ELSE Dec(Tail(L), r.rest, Put(acc, f.n, r.v))
           [] f.k = "reclen" ->
                IF Len(b) < f.w THEN Bad
                ELSE LET n == UVal(Take(b, f.w)) IN
                     IF Len(b) < f.w + n THEN Bad
                     ELSE LET r == Dec(Tail(L), Sub(b, f.w + 1, f.w + n), Put(acc, f.n, Take(b, f.w))) IN
                          IF ~r.ok \/ r.rest # <<>> THEN Bad ELSE [ok |-> TRUE, v |-> r.v, rest |-> Drop(b, f.w + n)]
           [] f.k = "lstr" ->
                IF Len(b) < f.lw THEN Bad
                ELSE LET n == UVal(Take(b, f.lw)) IN
                     IF Len(b) < f.lw + n THEN Bad
                     ELSE Dec(Tail(L), Drop(b, f.lw + n), Put(acc, f.n, Sub(b, f.lw + 1, f.lw + n)))
           [] f.k \in {"ulist", "optulist"} ->
                IF f.k = "optulist" /\ b = <<>> THEN Dec(Tail(L), <<>>, Put(acc, f.n, <<>>))
                ELSE IF Len(b) < f.cw THEN Bad
                ELSE LET n == UVal(Take(b, f.cw)) IN
                     IF Len(b) < f.cw + n * f.w THEN Bad
                     ELSE Dec(Tail(L), Drop(b, f.cw + n * f.w),
                              Put(acc, f.n, Mat([i \in 1..n |-> Sub(b, f.cw + (i - 1) * f.w + 1, f.cw + i * f.w)])))
           [] f.k = "list" ->
                IF Len(b) < f.cw THEN Bad
                ELSE LET r == DecItems(f.item, Drop(b, f.cw), UVal(Take(b, f.cw)), <<>>) IN
                     IF ~r.ok THEN Bad ELSE Dec(Tail(L), r.rest, Put(acc, f.n, r.v))
DecItems(item, b, n, acc) ==
    IF n = 0 THEN [ok |-> TRUE, v |-> acc, rest |-> b]
    ELSE LET r == Dec(item, b, <<>>) IN
         IF ~r.ok THEN Bad ELSE DecItems(item, r.rest, n - 1, Append(acc, r.v))

Decode(L, b) == LET r == Dec(L, b, <<>>) IN IF r.ok /\ r.rest = <<>> THEN [ok |-> TRUE, v |-> r.v] ELSE [ok |-> FALSE, v |-> <<>>]
\* C07 on the specification
RT1(L, v) == Decode(L, Enc(L, v)) = [ok |-> TRUE, v |-> v]
RT2(L, b) == Decode(L, b).ok => Enc(L, Decode(L, b).v) = b
=============================================================================
