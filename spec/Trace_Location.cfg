INIT Init
NEXT Next
INVARIANTS Verdict BaseFields Flags ItemSet ItemRaw ItemValues OverSpeedAreaID
CHECK_DEADLOCK FALSE
