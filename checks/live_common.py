"""Live-server drivers shared by C06, C09, C10, C11, C12, C13, C18 (and the live parts of C04/C05/C14)."""
import json, os, re
import vlib


def panic_signature(stderr):
    """panic message + top frame inside the repository (function, not line)"""
    m = re.search(r"(panic: [^\n]*|fatal error: [^\n]*)", stderr)
    msg = m.group(1) if m else "process died"
    msg = re.sub(r"0x[0-9a-f]+", "0x..", msg)
    msg = re.sub(r"\[\d+:\d+\]|\[-?\d+\]|\d+", "N", msg)
    fn = ""
    for mm in re.finditer(r"\n(github\.com/cuteLittleDevil/go-jt808/[^\n]+?)\((?:0x[0-9a-f]+|\{|\.\.\.|\))", stderr):
        fn = mm.group(1).replace("github.com/cuteLittleDevil/go-jt808/", "")
        break
    return "server-crash: %s in %s" % (msg[:90], fn or "?")


def run_live(ctx, args, timeout=900, race=False, env=None):
    """Runs a live scenario in a child process. Returns (returncode, stderr, events)."""
    r = ctx.vh(args, timeout=timeout, race=race, env=env)
    trace = [a for a in args if str(a).endswith(".ndjson")]
    events = []
    if trace and os.path.exists(trace[0]):
        for line in open(trace[0]):
            line = line.strip()
            if line:
                try:
                    events.append(json.loads(line))
                except ValueError:
                    pass  # a line cut short by a crash
    return r.returncode, r.stderr, events


def split_conns(events, want_end=True):
    """per-connection event lists in global-stamp order; the probe connection and manager events are dropped"""
    conns = {}
    for e in sorted(events, key=lambda e: e["g"]):
        c = e.get("c", -1)
        if c < 0:
            continue
        conns.setdefault(c, []).append(e)
    return {c: es for c, es in conns.items() if any(e["ev"] == "reset" for e in es)}


def trace_conn(ctx, conns, name, sig_prefix="", timeout=2400):
    """Validate per-connection event sequences with Trace_Conn. conns: {c: [events]}"""
    tr = os.path.join(ctx.scratch, "conn_trace_%s.ndjson" % name)
    flat = []
    for c in sorted(conns):
        es = conns[c]
        # the reset event first (dial logs it before anything else of that connection in practice)
        es = [e for e in es if e["ev"] == "reset"][:1] + [e for e in es if e["ev"] != "reset"]
        flat += es
    with open(tr, "w") as f:
        for e in flat:
            f.write(json.dumps(e) + "\n")
    verdict = os.path.join(ctx.scratch, "conn_verdict_%s.json" % name)
    res = ctx.tlc("Trace_Conn", env={"VERIF_TRACE": tr, "VERIF_OUT": verdict}, workers=1, timeout=timeout, name="Trace_Conn_" + name)
    if res["distinct"] != len(flat) + 1 or not os.path.exists(verdict):
        raise vlib.ToolFailure("Trace_Conn consumed %d of %d events:\n%s" % (res["distinct"] - 1, len(flat), res["out"][-2500:]))
    v = vlib.read_nd(verdict)[-1]
    for b in v["bad"]:
        e = flat[b["l"] - 1]
        es = conns[b["c"]]
        i = es.index(e) if e in es else 0
        ctx.violation("%s%s ev=%s" % (sig_prefix, b["what"], e["ev"]),
                      "connection %d: event %s rejected by Trace_Conn!%s" % (b["c"], json.dumps(e)[:500], b["what"]),
                      {"kind": "conn-trace", "what": b["what"], "at": i, "events": es[:i + 3][-60:]})
    ctx.note_impl("connections-validated-by-Trace_Conn " + name, len(conns), events=len(flat), rejected=len(v["bad"]))
    if conns:
        c0 = conns[sorted(conns)[0]]
        ctx.sample({"from": "live-connection", "events": [[e["p"], e["ev"], e.get("id"), e.get("serial")] for e in c0[:16]]})
    return v


def crash_check(ctx, rc, stderr, what, replay=None):
    if rc != 0:
        first = stderr.split("\n\ngoroutine", 2)
        crashing = first[1] if len(first) > 1 else stderr      # the stack of the goroutine that died
        if ("panic:" in stderr or "fatal error:" in stderr) and "cuteLittleDevil/go-jt808/" not in crashing and "fatal error:" not in stderr:
            raise vlib.ToolFailure("the harness itself panicked in %s:\n%s" % (what, stderr[-2500:]))
        if "panic:" in stderr or "fatal error:" in stderr or "WARNING: DATA RACE" in stderr:
            ctx.violation(panic_signature(stderr), "%s: child exit %d\n%s" % (what, rc, stderr[-1500:]), replay or {"kind": what})
            return True
        raise vlib.ToolFailure("live scenario %s failed rc=%d:\n%s" % (what, rc, stderr[-3000:]))
    return False


def live_segmentation(ctx):
    """live part of C04: a stream of frames full of CR / LF / NUL / TAB / space / escape bytes (also in the phone and serial fields)
    sent once per cut position in two writes over a real socket; callbacks, replies and frames validated by Trace_Conn"""
    tr = os.path.join(ctx.scratch, "c04_live.ndjson")
    rc, err, events = run_live(ctx, ["live-c04", tr])
    crash_check(ctx, rc, err, "live-c04")
    trace_conn(ctx, split_conns(events), "c04live")


def live_subpackages(ctx):
    """live part of C05: a running server, mostly sub-packaged messages (totals 1..4, two transfers interleaved, parts written two
    frames at a time so that completions share a read); every callback, reply and frame validated by Trace_Conn"""
    thorough = ctx.tier == "thorough"
    tr = os.path.join(ctx.scratch, "c05_live.ndjson")
    rc, err, events = run_live(ctx, ["live-c06", 8 if thorough else 4, 150 if thorough else 50, tr, "subpkg"])
    crash_check(ctx, rc, err, "live-c06-subpkg")
    trace_conn(ctx, split_conns(events), "c05live")
