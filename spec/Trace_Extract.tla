----------------------------- MODULE Trace_Extract -----------------------------
(* C04/C05/C14, implementation -> specification: sessions recorded from the   *)
(* real frame extractor (service.packageParse through the verif accessor)     *)
(* under a seeded random driver: 1-3 interleaved sub-packaged transfers       *)
(* (totals to 255, bodies to 1023 bytes over all byte values), duplicates,    *)
(* impossible package numbers, plain messages, logical time jumps around the  *)
(* 5 s / 60 s thresholds, frame-aligned or randomly re-segmented reads.       *)
(* TLC steps Extract!Feed / Tick through the same events; the logged outputs  *)
(* must be the specification's.  Mismatches are collected (first per session) *)
(* so that the rest of the trace is still checked.                            *)
EXTENDS Extract, Json, IOUtils, CSV

Trace == ndJsonDeserialize(IOEnv.VERIF_TRACE)
VARIABLES l, x, diverged, bad
Init == l = 1 /\ x = InitX /\ diverged = FALSE /\ bad = <<>>
E == Trace[l]
Flag(ok, what) == IF ok \/ diverged THEN bad ELSE Append(bad, [l |-> l, sess |-> E.sess, what |-> what])

ProjS(o) == [kind |-> o.kind, id |-> o.id, serial |-> o.serial, total |-> o.total, no |-> o.no,
             body |-> IF o.kind = "part" THEN <<>> ELSE o.body]
Reset == E.op = "reset" /\ x' = InitX /\ diverged' = FALSE /\ bad' = bad
DoTick == E.op = "tick" /\ x' = Tick(x, E.d) /\ UNCHANGED <<diverged, bad>>
DoFeed == /\ E.op = "feed"
          /\ LET r == Feed(x, E.bytes)
                 so == Mat([i \in 1..Len(r.out) |-> ProjS(r.out[i])])
                 io == Mat([i \in 1..Len(E.out) |-> ProjS(E.out[i])])
                 sr == {q.body : q \in r.rereq}
                 ir == {E.rereq[i].body : i \in 1..Len(E.rereq)}
                 what == IF E.err # r.err THEN "ErrMatch"
                         ELSE IF Len(io) # Len(so) THEN "CountMatch"
                         ELSE IF io # so THEN "MessagesMatch"
                         ELSE IF ir # sr \/ Len(E.rereq) # Cardinality(sr) THEN "ReRequestMatch"
                         ELSE IF ~r.err /\ E.hist # Len(r.x.hist) THEN "BufferMatch"
                         ELSE "ok"
             IN /\ x' = r.x
                /\ bad' = Flag(what = "ok", what)
                /\ diverged' = (diverged \/ what # "ok")
Next == l <= Len(Trace) /\ l' = l + 1 /\ (Reset \/ DoTick \/ DoFeed)
Done == l = Len(Trace) + 1
Report == Done => CSVWrite("%1$s", <<ToJson([bad |-> bad, n |-> Len(Trace)])>>, IOEnv.VERIF_OUT)
=============================================================================
