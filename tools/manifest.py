#!/usr/bin/env python3
"""Regenerates /verif/MANIFEST.json from the table below (single source of truth)."""
import json, os, subprocess
V = os.path.dirname(os.path.dirname(os.path.abspath(__file__)))
ids = [json.loads(l)["id"] for l in open(os.path.join(V, "properties.jsonl"))]

TRUST = ("Trusted: TLC + CommunityModules overrides, the Go toolchain, the harness adapters' projection functions "
         "(harness/*.go). Bounded instances; constants in evidence.coverage.tlc_runs.")

CHECKS = {
 "C01": dict(cat="model_checking", ref="5/C01",
   tech="TLA+ spec Frame.tla; TLC exhaustive bounded enumeration (MC_FrameC01) with every state replayed on Header.Encode/Decode; trace validation of recorded implementation events (Trace_FrameC01)",
   text="TLC checks RoundTrip/Transparent on the Frame specification for every source-header variant x reply id x serial x body up to the bound over an alphabet holding every special byte (plus forced 7E/7D/01/02 checksums) and emits each state with the expected bytes; the real Header.Encode must produce exactly those bytes and JTMessage.Decode must invert them. In the other direction seeded random bodies 0..1023 bytes over all 256 values, run through the real code, are validated event by event against the same operators."),
 "C02": dict(cat="model_checking", ref="5/C02",
   tech="TLA+ spec Frame.tla (operational Decode vs declarative canonical-form WellFormed); TLC exhaustive enumeration of short strings, wire-level escape strings and all single mutations of seed frames (MC_FrameC02), each replayed on JTMessage.Decode; trace validation of random frames/corruptions (Trace_FrameC02)",
   text="TLC proves Decode(f).ok <=> WellFormed(f) on the specification for every string of three exhaustive families (all short strings without interior delimiter; valid header + every wire-level escape string with length/checksum exact and off by one, checksum escaped and raw; every single-bit flip, substitution, truncation, deletion, insertion of 14 seed frames of both versions with and without sub-package fields) and emits each with the verdict and the positional field values; the real decoder must agree on accept/reject and on every field. Random valid frames over all byte values (bodies to 1023, reserved bits, arbitrary version bytes and package numbers) and their corruptions, decoded by the real code, are validated by TLC against WellFormed and the field reading."),
 "C17": dict(cat="model_checking", ref="5/C17",
   tech="TLA+ spec Rtp.tla (DecodeOne/Loop); TLC exhaustive enumeration of packet streams cut at every length plus marker-like junk (MC_Rtp), each replayed on jt1078.Packet.Decode; trace validation of random streams (Trace_Rtp)",
   text="TLC checks LoopExact on the Rtp specification for every stream of up to MaxPkts packets (every data type 0..15, marks, M bit, payload lengths) at every cut length, and JunkClassified for marker-alphabet prefixes padded around the 16- and 30-byte thresholds; every (stream, cut) is emitted with the expected sequence of packets (all header fields, payload) and final class and replayed on the real decoder with a fresh Packet per step. Seeded random streams with payloads 0..950 and beyond, random cuts and random strings are decoded by the real code and validated by TLC."),
 "C15": dict(cat="model_checking", ref="5/C15",
   tech="TLA+ spec Attach.tla (Demux/Apply/Drain session machine); TLC exhaustive unit-level behaviours (MC_Attach) and all-cut-pairs segmentation model (MC_AttachSeg), every script/cut replayed on the real attachment connection loop via an in-memory net.Conn; TLC trace validation of recorded random sessions (Trace_Attach)",
   text="TLC explores every behaviour of a terminal that announces files and sends 0x1211, any disjoint chunk split in any order with exact resends, interleaved files and early/late 0x1212 (names and alarm ids containing the chunk marker), checking CompleteIffAll, ControlAnswered, OneObsPerUnit and ReportExact on the specification, and proves segmentation independence over all cut pairs of a two-file script. Every terminal behaviour is replayed on the real connection.run under six segmentations and every 1-/2-cut of the script, comparing stage, reply bytes, completion and assembled content per unit. Random sessions (5 dialects, 2 header versions, sizes to 300 bytes, random segmentation) recorded per Read are stepped through the specification by TLC."),
 "C16": dict(cat="model_checking", ref="5/C16",
   tech="TLA+ operators Attach!MissSegments vs declarative MissExact; TLC exhaustive enumeration of all disjoint chunk sets (MC_Miss) replayed on Package.StatisticalMissSegments; 0x1212->0x9212 sessions from MC_Attach replayed over the connection with the wire bytes compared; Trace_Attach",
   text="TLC checks MissExact (exactly the missing bytes, ascending, maximal, non-empty) for every file size up to the bound and every set of pairwise disjoint chunks, and replays each case on the exported range computation. The same situations are driven through the real connection from MC_Attach behaviours (0x1212 early -> retransmit list -> resend -> 0x1212 complete): the 0x9212 frame on the wire must equal the specification's bytes, and model.P0x9212.Parse must read the same ranges back."),
 "C19": dict(cat="model_checking", ref="5/C19",
   tech="TLA+ spec Path.tla (lexical resolution, Confined); TLC enumeration of all names up to MaxSegs segments and wire-limit '../' repetitions (MC_Path), one real session per name with the default file handler in a sandbox; TLC validation of recorded file-tree deltas for random byte names (Trace_Path)",
   text="TLC classifies every name over {'..','.','','a','b c'} up to the segment bound (rooted or not) and '../'-repetitions to 255 bytes; for each the harness runs a complete real upload session (0x1210, 0x1211, chunk, 0x1212, close) with the default handler in a nested sandbox working directory holding decoy files and directories, then walks the tree: everything created or modified other than file.log must resolve strictly inside ./<phone>/, and plain names must be stored with the exact content. Random byte names (NUL, 0xFF, backslash, long) are validated the other way by Trace_Path!AllConfined/PlainStored."),
 "C04": dict(cat="model_checking", ref="5/C04",
   tech="TLA+ spec Extract.tla (Unpack fast path + buffered drain); TLC over all partitions of fixed streams into reads (MC_Stream, invariant Seg); every cut pair replayed on the real extractor through the verif accessor; TLC trace validation of randomly re-segmented sessions (Trace_Extract); live loopback runs",
   text="TLC explores every partition of streams of valid frames (both versions, escape-bearing and empty bodies, raw-7D checksum, in the thorough tier frames longer than the read buffer with read sizes {1,2,511,1022,1023}) into consecutive reads and checks Seg: after any prefix exactly the frames whose closing delimiter has arrived are delivered, in order, and the buffer holds the unconsumed tail. Every (i<j) pair of cut positions and the byte-by-byte segmentation are replayed on the real packageParse via service.VerifNewExtractor().Feed, comparing delivered raw frames and buffer length after each read. Random sessions fed in random read sizes are validated step by step by Trace_Extract."),
 "C05": dict(cat="model_checking", ref="5/C05",
   tech="TLA+ spec Extract.tla (PacketStep/Packets reassembly table with ghost 'sent' variables); TLC exhaustive terminal behaviours (MC_SubPkg: DeliveredExact, AtLastPacket, NoEarly, IgnoreBad); each behaviour replayed on the real extractor; Trace_Extract on random sessions; live loopback runs",
   text="TLC enumerates every behaviour of a terminal sending up to two interleaved sub-packaged messages (packet 1 first, others in any order, duplicates of 2..N, impossible numbers 0 and N+1, plain messages) and checks on the specification that a completed message is delivered exactly once, exactly at the last missing packet, with the concatenation in package-number order, and that impossible numbers change nothing. Each behaviour is a script replayed on the real packageParse comparing every delivered message; random sessions with totals to 255 and bodies to 1023 bytes in random read sizes are validated by Trace_Extract; the same transfers are sent over a real socket to a live server (each packet in its own read into the reused buffer)."),
 "C14": dict(cat="model_checking", ref="5/C14",
   tech="TLA+ spec Extract.tla with logical clock (Expire, DueForReRequest, Body8003); TLC exhaustive behaviours with Tick steps across the 5 s / 60 s thresholds (MC_SubPkg: ExactMissing, ReReqSpacing, MustReRequest, ExpiredNeverDelivered); replay on the real extractor with Age(d); Trace_Extract",
   text="TLC enumerates terminal behaviours with time steps of 4.9 s, 5.2 s and 55 s between frames so that transfers cross the idle and expiry thresholds from both sides, checking on the specification that a re-request names the first packet's serial and exactly the missing numbers ascending, occurs only after more than 5 s without progress or re-request and then always on the next inbound data, and that nothing is delivered from a transfer older than 60 s. Every behaviour is replayed on the real packageParse (Age(d) moves the transfer timestamps) comparing messages and the 0x8003 bodies; random sessions with age jumps and totals to 255 are validated by Trace_Extract."),
 "C06": dict(cat="model_checking", ref="5/C06",
   tech="TLA+ specs Replies.tla (reply function), Extract.tla and Trace_Conn.tla (per-connection queues: toReport, msgChan, write-callback and wire queues, platform serial); TLC trace validation of events recorded from a live server (terminal sockets, TerminalEventer callbacks, writer hook points) under seeded concurrent conversations",
   text="A live default-configuration server is driven over loopback TCP by concurrent harness terminals with seeded conversations over every default-registered terminal id, responses, platform ids, unsupported ids, both header versions, serials around 0/65535, the all-zero phone, coalesced/split writes and interleaved sub-packaged messages. Every event - bytes sent, read callback, dequeue by the writer, reply start, write callback with the bytes, frame received by the terminal - is stepped through Trace_Conn, which keeps the implementation's queues and the platform serial and derives each reply from Replies!ReplyFor: exactly one reply per reply-bearing message, right type/addressing/echo, in request order, consecutive serials (the thorough tier crosses 65535), read callback before the writer touches the message, write callback once with the bytes sent, nothing left over at quiescence."),
 "C12": dict(cat="model_checking", ref="5/C12",
   tech="TLA+ spec MC_Conn.tla (writer/timer/manager/caller protocol with wrapping serials: OwnResponse, OwnTimeout, WrittenOnce, ResultsSane) checked exhaustively by TLC; Trace_Conn.tla trace validation of live concurrent callers against scripted terminals (hook points cmd_written / resp_match / w_complete, caller call/return); serial-wrap stale-timer scenario on the live server",
   text="TLC explores every interleaving of 2-3 callers, the manager, the writer, time-out goroutines and a responding terminal with a platform serial that wraps at a small modulus, checking that a response result belongs to the caller's own serial, that a time-out comes from the timer armed for that very request, and that each call returns once. On a live server three concurrent callers per scripted terminal (prompt, late, duplicated, unknown-serial, reverse-order, absent responses; 7 command types; time-outs 30 ms..1.5 s; offline keys; ordinary traffic in between) are recorded at the writer's hook points and stepped through Trace_Conn: command written once with the fresh serial and the session's header, response matched exactly when its echoed serial is outstanding, completion delivered to the issuing caller, time-outs within their window, other traffic answered in order. A wrap scenario (65535 heartbeats between two commands) checks the stale-timer case on the real code."),
 "C13": dict(cat="model_checking", ref="5/C13",
   tech="TLA+ spec MC_Conn.tla (each step of stop(), writer select branches, check-then-send timers, manager, callers, terminal closing at any point): invariant NoPanic and liveness Returns under fairness checked by TLC; disconnect scenario catalogue on a live server in a child process with scheduler gates at hook points reproducing the model's interleavings; Trace_Conn on what happened",
   text="TLC checks on the connection protocol that no send can hit a closed channel (NoPanic) and that every waiting SendActiveMessage caller eventually returns (Returns, under weak/strong fairness of every goroutine and an eventually-closing terminal), for every interleaving within the stated capacities; the as-found protocol (Protocol = \"asis\") violates both, and those counterexamples define the gate orderings. The live catalogue (close with a command outstanding / queued, writer holding a command while the reader tears down, timer between check and send, command routed just before leave, response matched during teardown, close before join, mid-frame, random storms) runs in a child process: a panic or a call that has not returned 3 s after its time-out is a violation; the recorded events are also stepped through Trace_Conn."),
}

NA_REASON = "check not built yet (work in progress; see DESIGN.md section 10)"

def main():
    hooks = []
    try:
        out = subprocess.run(["git", "-C", "/repo", "log", "--format=%h %s"], capture_output=True, text=True).stdout
        hooks = [l.split()[0] for l in out.splitlines() if l.split(" ", 1)[1].startswith("verif:")]
    except Exception:
        pass
    m = {"version": 1,
         "setup_cmd": "cd /verif/harness && GOFLAGS=-mod=mod GOPROXY=off GOSUMDB=off GOTOOLCHAIN=local go build -tags verif -o /dev/null . && python3 -c 'import json;json.load(open(\"/verif/known_findings.json\"))'",
         "hooks": {"guard": "verif", "enable": "go build -tags verif (the harness module /verif/harness has replace directives to /repo/{protocol,service,attachment,terminal,shared}, so every check compiles the working tree)",
                   "baseline_off_cmd": "for m in . attachment protocol service shared terminal; do (cd /repo/$m && go test -mod=mod -vet=off -count=1 ./...) || exit 1; done",
                   "source_commits": hooks, "add_only": True},
         "engines": [{"name": "check", "path": "/verif/check", "serves_properties": sorted(CHECKS),
                      "kind_free_text": "python3 orchestrator: TLC (spec/*.tla) <-> Go harness (harness/, built from /repo with -tags verif): exhaustive model checking, replay of TLC-generated cases/behaviours on the real code, TLC trace validation of recorded executions"}],
         "checks": [], "not_applicable": [],
         "notes": "Model-based verification with explicit TLA+ specifications (spec/). See DESIGN.md. known_findings.json lists recorded and fixed defects."}
    for i in ids:
        if i in CHECKS:
            c = CHECKS[i]
            m["checks"].append({"property_id": i, "quick_cmd": "./check %s --tier quick" % i,
                                "thorough_cmd": "./check %s --tier thorough" % i,
                                "evidence_file": "/verif/evidence/%s.json" % i,
                                "replay_cmd_template": "./check %s --replay {path}" % i, "engine": "check",
                                "level_claimed": {"category": c["cat"], "text": c["text"], "design_ref": "DESIGN.md section " + c["ref"]},
                                "level_note": c.get("note", TRUST), "technique": c["tech"]})
        else:
            m["not_applicable"].append({"property_id": i, "reason": NA_REASON})
    json.dump(m, open(os.path.join(V, "MANIFEST.json"), "w"), indent=1)
    print("checks:", len(m["checks"]), "not_applicable:", len(m["not_applicable"]), "hooks:", hooks)

main()
