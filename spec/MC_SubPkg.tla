------------------------------ MODULE MC_SubPkg ------------------------------
(* C05 / C14 on the specification: a terminal sends up to two sub-packaged   *)
(* messages (ids A, B; totals NA, NB; packet 1 first, the others in any      *)
(* order, duplicates of 2..N, interleaved with each other, with plain        *)
(* messages and with packets carrying impossible numbers 0 and N+1), each    *)
(* frame in its own read; time passes in steps taken from Ticks.             *)
(* Ghost variables hold what was sent; the invariants state C05 (exact       *)
(* delivery, once, at the last packet, bad numbers ignored) and C14 (exact    *)
(* missing list naming the first packet's serial, at most once per Idle,     *)
(* nothing delivered from a transfer older than Ttl).                        *)
(* With Record = TRUE the behaviour is kept as a script and emitted at       *)
(* terminal states for replay on the real extractor.                         *)
EXTENDS Extract, Json, CSV, IOUtils
CONSTANTS NA, NB, MaxSteps, MaxDup, MaxBad, MaxRestart, MaxPlain, Ticks, Record, Ver

P == IF Ver = 1 THEN <<0, 0, 0, 0, 1, 56, 0, 0, 0, 1>> ELSE <<1, 56, 0, 0, 0, 1>>
IdA == 2049     \* 0x0801
IdB == 1796     \* 0x0704
Tot(id) == IF id = IdA THEN NA ELSE NB
Ids == {IdA} \cup (IF NB > 0 THEN {IdB} ELSE {})
\* distinct, unequal-length bodies; some with escape bytes
\* (g = generation: a transfer that is started again carries different bytes than the abandoned one)
BodyOfG(id, no, g) == IF id = IdA THEN [i \in 1..no |-> 16 * no + i + 64 * g] ELSE <<126, 125, no + 64 * g>>
PartFrameG(id, no, serial, total, g) ==
    TerminalFrame([id |-> id, rsv15 |-> 0, ver |-> Ver, frag |-> 1, enc3 |-> 0, verbyte |-> 1, phone |-> P,
                   serial |-> serial, total |-> total, no |-> no, body |-> BodyOfG(id, IF no = 0 THEN 9 ELSE no, g)])
PlainFrame(serial) ==
    TerminalFrame([id |-> 2, rsv15 |-> 0, ver |-> Ver, frag |-> 0, enc3 |-> 0, verbyte |-> 1, phone |-> P,
                   serial |-> serial, total |-> 0, no |-> 0, body |-> <<>>])

VARIABLES x, steps, tser,
          sentNo,    \* sentNo[id] : package numbers sent in the current transfer (ghost)
          firstSer,  \* firstSer[id] : serial of packet 1 of the current transfer (ghost)
          started,   \* started[id] : time packet 1 was sent (ghost), -1 = none
          lastProg,  \* lastProg[id] : time of last accepted packet or re-request (ghost)
          gap,       \* gap[id] : idle time of the transfer as seen by the step just taken (ghost)
          delivered, \* number of completed deliveries per id
          dups, bads, plains,
          gen,       \* gen[id] : how often the transfer was started again before it was complete (ghost)
          last,      \* [op, out, rereq] of the step just taken
          script
vars == <<x, steps, tser, sentNo, firstSer, started, lastProg, gap, delivered, dups, bads, plains, gen, last, script>>

Init == /\ x = InitX /\ steps = 0 /\ tser = 100
        /\ sentNo = [id \in Ids |-> {}] /\ firstSer = [id \in Ids |-> 0] /\ started = [id \in Ids |-> -1]
        /\ lastProg = [id \in Ids |-> 0] /\ gap = [id \in Ids |-> 0] /\ delivered = [id \in Ids |-> 0]
        /\ dups = 0 /\ bads = 0 /\ plains = 0 /\ gen = [id \in Ids |-> 0]
        /\ last = [op |-> "none", out |-> <<>>, rereq |-> {}, id |-> 0, no |-> 0]
        /\ script = <<>>

View(o) == [kind |-> o.kind, id |-> o.id, serial |-> o.serial, total |-> o.total, no |-> o.no, body |-> o.body]
DoFeed(fr, op, id, no) ==
    LET r == Feed(x, fr) IN
    /\ x' = r.x
    /\ last' = [op |-> op, out |-> [i \in 1..Len(r.out) |-> View(r.out[i])], rereq |-> r.rereq, id |-> id, no |-> no]
    /\ script' = IF Record THEN Append(script, [op |-> "feed", bytes |-> fr, d |-> 0,
                                                out |-> [i \in 1..Len(r.out) |-> View(r.out[i])],
                                                rereq |-> {[id |-> q.id, body |-> q.body] : q \in r.rereq}]) ELSE script
    /\ steps' = steps + 1 /\ tser' = tser + 1
    /\ lastProg' = [i \in Ids |-> IF (\E q \in r.rereq : q.id = i) \/ (op = "part" /\ i = id) THEN x.now ELSE lastProg[i]]
    /\ gap' = [i \in Ids |-> IF op = "part" /\ i = id THEN 0 ELSE x.now - lastProg[i]]

\* the terminal keeps sending packets of a transfer even when it has become stale on the server
Active(id) == started[id] >= 0 /\ sentNo[id] # 1..Tot(id)
Stale(id) == started[id] >= 0 /\ x.now - started[id] > Ttl

SendFirst(id) == /\ (~Active(id) \/ Stale(id)) /\ delivered[id] = 0
                 /\ DoFeed(PartFrameG(id, 1, tser, Tot(id), gen[id]), "part", id, 1)
                 /\ sentNo' = [sentNo EXCEPT ![id] = {1}] /\ firstSer' = [firstSer EXCEPT ![id] = tser]
                 /\ started' = [started EXCEPT ![id] = x.now]
                 /\ UNCHANGED <<dups, bads, plains, gen>>
\* the terminal abandons a transfer that is still open on the server and starts the same message again: packet 1 replaces the
\* old transfer, nothing of it may reach the new one
Restart(id) == /\ Active(id) /\ ~Stale(id) /\ gen[id] < MaxRestart /\ Cardinality(sentNo[id]) > 1
               /\ gen' = [gen EXCEPT ![id] = @ + 1]
               /\ DoFeed(PartFrameG(id, 1, tser, Tot(id), gen[id] + 1), "part", id, 1)
               /\ sentNo' = [sentNo EXCEPT ![id] = {1}] /\ firstSer' = [firstSer EXCEPT ![id] = tser]
               /\ started' = [started EXCEPT ![id] = x.now]
               /\ UNCHANGED <<dups, bads, plains>>
SendPart(id, no) ==
    /\ Active(id) /\ no \in 2..Tot(id)
    /\ \/ no \notin sentNo[id] /\ dups' = dups
       \/ no \in sentNo[id] /\ dups < MaxDup /\ dups' = dups + 1
    /\ DoFeed(PartFrameG(id, no, tser, Tot(id), gen[id]), "part", id, no)
    /\ sentNo' = [sentNo EXCEPT ![id] = @ \cup {no}]
    /\ UNCHANGED <<firstSer, started, bads, plains, gen>>
SendBad(id, no) ==
    /\ bads < MaxBad /\ no \in {0, Tot(id) + 1} /\ bads' = bads + 1
    /\ DoFeed(PartFrameG(id, no, tser, Tot(id), gen[id]), "bad", id, no)
    /\ UNCHANGED <<sentNo, firstSer, started, dups, plains, gen>>
SendPlain == /\ plains < MaxPlain /\ plains' = plains + 1
             /\ DoFeed(PlainFrame(tser), "plain", 0, 0)
             /\ UNCHANGED <<sentNo, firstSer, started, dups, bads, gen>>
Pass(d) == /\ d \in Ticks /\ x' = Tick(x, d)
           /\ last' = [op |-> "tick", out |-> <<>>, rereq |-> {}, id |-> 0, no |-> 0]
           /\ script' = IF Record THEN Append(script, [op |-> "tick", bytes |-> <<>>, d |-> d, out |-> <<>>, rereq |-> {}]) ELSE script
           /\ steps' = steps + 1
           /\ UNCHANGED <<tser, sentNo, firstSer, started, lastProg, gap, dups, bads, plains, gen>>

Completes == {i \in 1..Len(last'.out) : last'.out[i].kind = "complete"}
Step == \/ \E id \in Ids : SendFirst(id) \/ Restart(id) \/ (\E no \in 0..(Tot(id) + 1) : SendPart(id, no) \/ SendBad(id, no))
        \/ SendPlain
        \/ \E d \in Ticks : Pass(d)
Next == /\ steps < MaxSteps /\ Step
        /\ delivered' = [id \in Ids |-> delivered[id] + Cardinality({i \in Completes : last'.out[i].id = id})]

-----------------------------------------------------------------------------
Comp == {i \in 1..Len(last.out) : last.out[i].kind = "complete"}
\* C05: a delivery happens exactly in the step that sends the last missing packet of a live transfer,
\*      once, with the concatenation of the packet bodies in number order
DeliveredExact ==
    /\ \A i \in Comp : /\ last.op = "part" /\ last.out[i].id = last.id
                       /\ last.out[i].body = Concat([k \in 1..Tot(last.id) |-> BodyOfG(last.id, k, gen[last.id])])
    /\ Cardinality(Comp) <= 1
    /\ \A id \in Ids : delivered[id] <= 1
AtLastPacket ==
    (last.op = "part" /\ started[last.id] >= 0 /\ x.now - started[last.id] <= Ttl /\ sentNo[last.id] = 1..Tot(last.id)
        /\ delivered[last.id] <= 1)
    => (delivered[last.id] = 1)
NoEarly == \A id \in Ids : delivered[id] = 1 => sentNo[id] = 1..Tot(id)
\* C05: impossible numbers change nothing and produce only their own (incomplete) message
IgnoreBad == last.op = "bad" => Comp = {}
\* every frame is reported once as received (plain or part), in order, before completions
OneMsgPerFrame == last.op \in {"part", "bad", "plain"} => Len(last.out) >= 1 /\ last.out[1].kind \in {"plain", "part"}
\* C14: a re-request names the first packet's serial and exactly the missing numbers, only after Idle without progress
ExactMissing == \A q \in last.rereq :
    /\ q.id \in Ids /\ q.serial = firstSer[q.id] /\ q.missing = (1..Tot(q.id)) \ sentNo[q.id] /\ q.missing # {}
\* ... only after more than Idle without progress or re-request (at most once per Idle) ...
ReReqSpacing == \A q \in last.rereq : gap[q.id] > Idle
\* ... and then always: the next inbound data after Idle of silence triggers it
MustReRequest == \A id \in Ids :
    (last.op \in {"part", "bad", "plain"} /\ id \in DOMAIN x.rec /\ gap[id] > Idle) => \E q \in last.rereq : q.id = id
\* C14: nothing is delivered from a transfer that is older than Ttl
ExpiredNeverDelivered == \A i \in Comp : x.now - started[last.out[i].id] <= Ttl

Terminal == steps = MaxSteps
Emit == (Record /\ Terminal) => CSVWrite("%1$s", <<ToJson([ver |-> Ver, steps |-> script])>>, IOEnv.VERIF_OUT)
=============================================================================
