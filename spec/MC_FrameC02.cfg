INIT Init
NEXT Next
CONSTANTS
  MaxShort = 6
  MaxWire = 4
INVARIANTS SeedsValid SoundHere Emit
CHECK_DEADLOCK FALSE
