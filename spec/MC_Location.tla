----------------------------- MODULE MC_Location -----------------------------
(* C08 exhaustive part.  Families of location bodies, each decoded by the     *)
(* specification and emitted with every expected field:                       *)
(*  flags : basic blocks whose alarm / status word has every single bit, every*)
(*          pair of bits of the lower 8 x upper 8, all ones, none             *)
(*  items : the basic block followed by every sequence of <= MaxItems items   *)
(*          over every standard id x every length in admissible, +-1, 0, and  *)
(*          unknown ids; contents are position coded, flag words single bits  *)
(* Carriers (0x0704 item framing, 0x0801 embedding) are applied by the        *)
(* replayer to every emitted body.                                            *)
EXTENDS Location, Json, CSV, IOUtils
CONSTANTS MaxItems

Fixed == <<17, 34, 51, 68>> \o <<85, 102, 119, 136>> \o <<5, 6>> \o <<7, 8>> \o <<1, 89>> \o <<36, 16, 1, 35, 89, 89>>   \* lat lon alt speed dir time
Word(bits) == LET v == [k \in 0..3 |-> FoldSet(LAMBDA b, s : s + (IF b \div 8 = k THEN 2 ^ (b % 8) ELSE 0), 0, bits)]
              IN <<v[3], v[2], v[1], v[0]>>
BitSets == {{}} \cup {{i} : i \in 0..31} \cup {{i, j} : i \in 0..7, j \in 24..31} \cup {0..31}
\* alarm words that look like the first bytes of a picture or video (a decoder must not sniff content where the standard fixes
\* the layout), and BCD years around the pivots of two-digit-year conventions
Magic == { <<255, 216, 255, 224>>, <<255, 216, 255, 219>>, <<137, 80, 78, 71>>, <<71, 73, 70, 56>>, <<0, 0, 0, 24>>, <<0, 0, 1, 179>>, <<66, 77, 54, 0>> }
MagicBodies == {m \o Word({}) \o Fixed : m \in Magic} \cup {Word({}) \o m \o Fixed : m \in Magic}
Times == { <<105, 18, 49, 35, 89, 89>>, <<112, 1, 1, 0, 0, 0>>, <<153, 18, 49, 35, 89, 89>>, <<0, 1, 1, 0, 0, 0>>, <<104, 18, 49, 0, 0, 0>>, <<80, 6, 21, 18, 48, 0>>, <<0, 0, 0, 0, 0, 0>> }
TimeBodies == {Word({0}) \o Word({1}) \o Sub(Fixed, 1, 14) \o t : t \in Times}
FlagBodies == {Word(a) \o Word({}) \o Fixed : a \in BitSets} \cup {Word({}) \o Word(s) \o Fixed : s \in BitSets}
              \cup MagicBodies \cup TimeBodies

\* not standard items (kept verbatim, whatever follows them is still decoded): 0x00, 0x07, 0x14, 0x64 and 0x70 (vendor extensions
\* without a registered decoder), 0xE0, 0xE1, 0xFF
Ids == {1, 2, 3, 4, 5, 6, 17, 18, 19, 37, 42, 43, 48, 49} \cup {0, 7, 20, 100, 112, 224, 225, 255}
Lens(id) == IF id \in DOMAIN Admissible
            THEN UNION {{n - 1, n, n + 1} : n \in Admissible[id]} \cup {0}
            ELSE {0, 3}
Content(id, n, k) == [i \in 1..n |-> IF id \in {37, 42} THEN (IF i = n - (k % n) THEN 2 ^ (k % 8) ELSE 0)
                                     ELSE IF id = 17 /\ i = 1 THEN k % 2 ELSE (16 * id + i + k) % 256]
ItemBytes(id, n, k) == <<id, n>> \o Content(id, n, k)
\* (for the 32-bit status word 0x25 also values that differ in their upper half only)
AllItems == UNION {{ItemBytes(id, n, k) : n \in {m \in Lens(id) : m >= 0}, k \in (IF id = 37 THEN {0, 1, 2, 3, 9, 11} ELSE {0, 1, 9})} : id \in Ids}

VARIABLES fam, body, nitems
Init == \/ fam = "flags" /\ body \in FlagBodies /\ nitems = 0
        \/ fam = "items" /\ body = Word({0}) \o Word({1}) \o Fixed /\ nitems = 0
Next == /\ fam = "items" /\ nitems < MaxItems
        /\ \E it \in AllItems : body' = body \o it
        /\ nitems' = nitems + 1 /\ UNCHANGED fam

\* internal consistency of the transcription
TablesSane == Injective(AlarmBits) /\ Injective(StatusBits) /\ Injective(ExtVehicleBits) /\ Injective(IOBits)
              /\ Cardinality(DOMAIN AlarmBits) = 32 /\ Cardinality(DOMAIN StatusBits) = 21
\* each flag depends on exactly its bit
FlagsExact == fam = "flags" => LET r == Report(body) IN
              r.ok /\ \A n \in DOMAIN AlarmBits : (n \in r.base.alarms) <=> BitOf(Sub(body, 1, 4), AlarmBits[n]) = 1

View(r) == IF ~r.ok THEN [ok |-> FALSE]
           ELSE [ok |-> TRUE, alarm |-> r.base.alarm, status |-> r.base.status, lat |-> r.base.lat, lon |-> r.base.lon,
                 alt |-> r.base.alt, speed |-> r.base.speed, dir |-> r.base.dir, time |-> r.base.time,
                 alarms |-> r.base.alarms, statuses |-> r.base.statuses,
                 items |-> [i \in 1..Cardinality(DOMAIN r.items) |->
                              r.items[CHOOSE id \in DOMAIN r.items : Cardinality({j \in DOMAIN r.items : j < id}) = i - 1]]]
Emit == CSVWrite("%1$s", <<ToJson([body |-> body, fam |-> fam, r |-> View(Report(body))])>>, IOEnv.VERIF_OUT)
TablesOut == (fam = "flags" /\ body = Word({}) \o Word({}) \o Fixed) =>
    CSVWrite("%1$s", <<ToJson([tables |-> TRUE, alarm |-> AlarmBits, status |-> StatusBits, ext |-> ExtVehicleBits, io |-> IOBits])>>, IOEnv.VERIF_OUT)
=============================================================================
