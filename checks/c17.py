"""C17 JT1078 RTP packets are decoded as the standard prescribes (DESIGN.md section 5, C17)."""
import json, os
import vlib
from checks.c01 import run_results, trace_validate

LEVEL = "model_checking"


def check(ctx):
    thorough = ctx.tier == "thorough"
    ctx.build()
    cases = os.path.join(ctx.scratch, "c17_cases.ndjson")
    ctx.tlc("MC_Rtp", constants={"MaxPkts": 3 if thorough else 2, "MaxPay": 2}, env={"VERIF_OUT": cases}, workers=12)
    res = os.path.join(ctx.scratch, "c17_res.ndjson")
    ctx.vh_ok(["c17-replay", cases, res])
    run_results(ctx, res, "spec-streams-replayed-on-jt1078.Packet.Decode")
    n = 5000 if thorough else 600
    tr = os.path.join(ctx.scratch, "c17_trace.ndjson")
    ctx.vh_ok(["c17-gen", n, tr])
    events = vlib.read_nd(tr, quoted=False)
    trace_validate(ctx, "Trace_Rtp", tr, events, "impl-decode-loops-validated-by-Trace_Rtp",
                   lambda inv, e: "%s %s" % (inv, e.get("kind", "?")))
    ctx.cov["rule"] = ("TLC enumerates streams of up to MaxPkts packets (first packet: data type 0..15 x mark {0,3,15} x M x payload "
                       "length 0..MaxPay; later packets from a thinner set) and checks/emit one case per cut length 0..len; "
                       "plus every marker-alphabet prefix of length <= 5 zero-padded to 15/16/17/29/30/31 bytes. Distinct by construction.")
    ctx.cov["exhaustive"] = True
    ctx.assumptions += ["the remainder returned together with an error is not judged (pinned to an odd value by an existing test)",
                        "a fresh jt1078.Packet per step, as in the shipped example (receiver reuse is C03's subject)"]


def replay(ctx, path):
    r = json.load(open(path))["replay"]
    ctx.build()
    c = r.get("case") or r.get("event")
    f = os.path.join(ctx.scratch, "one.ndjson"); open(f, "w").write("".join(json.dumps(x) + "\n" for x in (c if isinstance(c, list) else [c]) if x.get("data") is not None))
    out = os.path.join(ctx.scratch, "one_res.ndjson")
    ctx.vh_ok(["c17-replay", f, out]); run_results(ctx, out, "replay")
