INIT Init
NEXT Next
INVARIANTS ReportExact ReportIsSpec WireExact ReadBack HeldReportStable
CHECK_DEADLOCK FALSE
