---------------------------- MODULE Trace_ReRequest ----------------------------
(* C14 on a live server with real waiting: several transfers idle for more than *)
(* 5 s; after the next inbound data the terminal must receive, besides the      *)
(* reply to that data, exactly one 0x8003 per transfer, each naming the first   *)
(* packet's serial and exactly the missing package numbers in ascending order.  *)
EXTENDS Extract, Json, IOUtils
Trace == ndJsonDeserialize(IOEnv.VERIF_TRACE)
VARIABLE l
Init == l = 0
Next == l = 0 /\ l' \in 1..Len(Trace)
E == Trace[l]
ReReqBodies == {Decode(E.frames[i]).body : i \in {j \in 1..Len(E.frames) : Decode(E.frames[j]).ok /\ Decode(E.frames[j]).id = 32771}}
Expected == {Body8003(E.firsts[i], {E.missing[i][k] : k \in 1..Len(E.missing[i])}) : i \in 1..Len(E.firsts)}
OnePerTransfer == l = 0 \/ (ReReqBodies = Expected /\
                   Cardinality({j \in 1..Len(E.frames) : Decode(E.frames[j]).ok /\ Decode(E.frames[j]).id = 32771}) = Len(E.firsts))
=============================================================================
