"""C16 Attachment completion report lists exactly the missing byte ranges (DESIGN.md section 5, C16)."""
import json, os
import vlib
from checks import attach_common as ac
from checks.c01 import run_results

LEVEL = "model_checking"


def check(ctx):
    thorough = ctx.tier == "thorough"
    ctx.build()
    cases = os.path.join(ctx.scratch, "miss.ndjson")
    ctx.tlc("MC_Miss", constants={"MaxSize": 11 if thorough else 9}, env={"VERIF_OUT": cases}, workers=12)
    res = os.path.join(ctx.scratch, "miss_res.ndjson")
    ctx.vh_ok(["c16-replay", cases, res])
    run_results(ctx, res, "MC_Miss-cases-replayed-on-Package.StatisticalMissSegments")
    # large cases the other way round: up to 300 gaps through the real code, judged by the declarative MissExact
    tr = os.path.join(ctx.scratch, "miss_trace.ndjson")
    ctx.vh_ok(["c16-gen", 200 if thorough else 40, tr])
    events = vlib.read_nd(tr, quoted=False)
    from checks.c01 import trace_validate
    trace_validate(ctx, "Trace_Miss", tr, events, "large-range-reports-validated-by-Trace_Miss",
                   lambda inv, e: "%s gaps>=%d" % (inv, 128 if len(e.get("segs", [])) >= 127 else 0))
    # the same situations driven through the connection: 0x1212 -> 0x9212 on the wire, resend, 0x1212 again
    cfgs = [dict(D="JS", NFiles=1, MaxChunk=2, MaxSteps=8, MaxDup=0, Ver=1)]
    if thorough:
        cfgs += [dict(D="SC", NFiles=2, MaxChunk=2, MaxSteps=8, MaxDup=0, Ver=0), dict(D="HLJ", NFiles=1, MaxChunk=3, MaxSteps=9, MaxDup=1, Ver=0)]
    ac.mc_attach(ctx, cfgs, extra_replay_args=["parse9212"])
    ac.trace_attach(ctx, 1000 if thorough else 120)
    ac.big_uploads(ctx)
    ctx.cov["rule"] = ("MC_Miss: all file sizes 1..MaxSize x all sets of pairwise disjoint chunks (each set generated once, left to right); "
                       "MissExact checked on the spec and each case replayed on the exported range computation. MC_Attach sessions end in "
                       "0x1212 -> resend -> 0x1212 and compare the 0x9212 bytes on the wire; P0x9212.Parse must read the same ranges.")
    ctx.cov["exhaustive"] = True
    ctx.assumptions += ["received chunks pairwise disjoint (the property's domain); sizes below 2^31 byte for byte, 2..4 GiB in MiB units (the computation is scale-free, TLC integers are 32 bit)",
                        "0x1212 for a file name that was never announced is outside the property and not judged"]


def replay(ctx, path):
    ctx.build()
    r = json.load(open(path))["replay"]
    if str(r.get("kind", "")).startswith("large-upload"):      # the large sessions are cheap: all of them are run again
        ctx.build(); ac.big_uploads(ctx); return
    if "case" in r and "chunks" in r["case"]:
        f = os.path.join(ctx.scratch, "one.ndjson"); open(f, "w").write(json.dumps(r["case"]) + "\n")
        out = os.path.join(ctx.scratch, "one_res.ndjson")
        ctx.vh_ok(["c16-replay", f, out]); run_results(ctx, out, "replay")
    elif "event" in r and "chunks" in r["event"]:       # a Trace_Miss rejection: recompute the report from its chunk set on the current tree
        f = os.path.join(ctx.scratch, "one_ev.ndjson"); open(f, "w").write(json.dumps(r["event"]) + "\n")
        tr = os.path.join(ctx.scratch, "one_tr.ndjson")
        ctx.vh_ok(["c16-regen", f, tr])
        from checks.c01 import trace_validate
        trace_validate(ctx, "Trace_Miss", tr, vlib.read_nd(tr, quoted=False), "replay", lambda inv, e: inv)
    else:
        ac.replay_session(ctx, r)
