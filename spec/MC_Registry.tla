----------------------------- MODULE MC_Registry -----------------------------
(* C11: the session registry.  One manager goroutine applies join / leave /   *)
(* route operations in channel order; connections obtain a key with their     *)
(* first message, are refused and closed when the key is online, and free     *)
(* exactly their own key when they end; callers route commands by key.        *)
(* Connections that end may be followed by new ones with the same key         *)
(* (reconnects): generation counters keep them apart.                         *)
EXTENDS Integers, Sequences, FiniteSets, TLC
CONSTANTS Conns,      \* connection ids, e.g. 1..3
          KeyOf,      \* KeyOf[c] : the key connection c presents
          Callers, CallKey,   \* CallKey[k] : the key caller k addresses
          CapOp

\* model values (cfg files cannot hold tuples): connections 1, 2 and 4 present key a, 3 presents b
KeyOfDef == <<"a", "a", "b", "a">>
CallKeyDef == <<"a", "b", "a">>

Keys == {KeyOf[c] : c \in Conns}
VARIABLES pc,        \* pc[c] \in {"new","joinSent","live","refused","leaveSent","dead"}
          mykey,     \* mykey[c] : key obtained ("" if none)
          opChan, registry,     \* registry : key -> connection
          pcK, routed,          \* routed[k] : connection the command was handed to, 0 = not-exist, -1 = nothing yet
          joinCb, leaveCb,      \* callback counts / keys per connection
          hist                  \* last manager step (for action-level properties as invariants)
vars == <<pc, mykey, opChan, registry, pcK, routed, joinCb, leaveCb, hist>>

Init == /\ pc = [c \in Conns |-> "new"] /\ mykey = [c \in Conns |-> ""] /\ opChan = <<>> /\ registry = <<>>
        /\ pcK = [k \in Callers |-> "idle"] /\ routed = [k \in Callers |-> -1]
        /\ joinCb = [c \in Conns |-> 0] /\ leaveCb = [c \in Conns |-> <<>>]
        /\ hist = [op |-> "none"]
Ext(fn, k, v) == [y \in DOMAIN fn \cup {k} |-> IF y = k THEN v ELSE fn[y]]
Without(fn, k) == [y \in DOMAIN fn \ {k} |-> fn[y]]

\* first handled message: ask the manager
C_Join(c) == /\ pc[c] = "new" /\ Len(opChan) < CapOp
             /\ opChan' = Append(opChan, [op |-> "join", c |-> c]) /\ pc' = [pc EXCEPT ![c] = "joinSent"]
             /\ UNCHANGED <<mykey, registry, pcK, routed, joinCb, leaveCb, hist>>
\* the connection ends (peer closed, error, or refused): stop() leaves with the key it obtained
C_Stop(c) == /\ pc[c] \in {"new", "live", "refused"} /\ Len(opChan) < CapOp
             /\ opChan' = Append(opChan, [op |-> "leave", c |-> c, key |-> mykey[c]]) /\ pc' = [pc EXCEPT ![c] = "leaveSent"]
             /\ UNCHANGED <<mykey, registry, pcK, routed, joinCb, leaveCb, hist>>
K_Call(k) == /\ pcK[k] = "idle" /\ Len(opChan) < CapOp
             /\ opChan' = Append(opChan, [op |-> "route", k |-> k, key |-> CallKey[k]]) /\ pcK' = [pcK EXCEPT ![k] = "wait"]
             /\ UNCHANGED <<pc, mykey, registry, routed, joinCb, leaveCb, hist>>
M_Exec == /\ opChan # <<>>
          /\ LET o == Head(opChan) IN
             /\ opChan' = Tail(opChan)
             /\ CASE o.op = "join" ->
                     IF KeyOf[o.c] \in DOMAIN registry
                     THEN /\ pc' = [pc EXCEPT ![o.c] = "refused"] /\ hist' = [op |-> "refused", c |-> o.c, before |-> registry]
                          /\ UNCHANGED <<registry, mykey, joinCb, leaveCb, pcK, routed>>
                     ELSE /\ registry' = Ext(registry, KeyOf[o.c], o.c) /\ mykey' = [mykey EXCEPT ![o.c] = KeyOf[o.c]]
                          /\ pc' = [pc EXCEPT ![o.c] = "live"] /\ joinCb' = [joinCb EXCEPT ![o.c] = @ + 1]
                          /\ hist' = [op |-> "joined", c |-> o.c, before |-> registry]
                          /\ UNCHANGED <<leaveCb, pcK, routed>>
                  [] o.op = "leave" ->
                     /\ registry' = IF o.key \in DOMAIN registry THEN Without(registry, o.key) ELSE registry
                     /\ pc' = [pc EXCEPT ![o.c] = "dead"] /\ leaveCb' = [leaveCb EXCEPT ![o.c] = Append(@, o.key)]
                     /\ hist' = [op |-> "left", c |-> o.c, key |-> o.key, before |-> registry]
                     /\ UNCHANGED <<mykey, joinCb, pcK, routed>>
                  [] o.op = "route" ->
                     /\ routed' = [routed EXCEPT ![o.k] = IF o.key \in DOMAIN registry THEN registry[o.key] ELSE 0]
                     /\ pcK' = [pcK EXCEPT ![o.k] = "done"]
                     /\ hist' = [op |-> "routed", k |-> o.k, key |-> o.key, before |-> registry]
                     /\ UNCHANGED <<pc, mykey, registry, joinCb, leaveCb>>
Next == \/ \E c \in Conns : C_Join(c) \/ C_Stop(c)
        \/ \E k \in Callers : K_Call(k)
        \/ M_Exec
Spec == Init /\ [][Next]_vars /\ WF_vars(M_Exec) /\ \A c \in Conns : WF_vars(C_Stop(c))

\* at most one live connection per key, and it is the one recorded
AtMostOne == \A a, b \in Conns : (pc[a] = "live" /\ pc[b] = "live" /\ KeyOf[a] = KeyOf[b]) => a = b
RegistryExact == \A key \in DOMAIN registry : LET c == registry[key] IN KeyOf[c] = key /\ mykey[c] = key /\ pc[c] \in {"live", "leaveSent"}
\* a refused join changes nothing and leaves the first owner in place
RefuseKeepsFirst == hist.op = "refused" => registry = hist.before /\ KeyOf[hist.c] \in DOMAIN registry /\ registry[KeyOf[hist.c]] # hist.c
\* a leave frees exactly the key the connection obtained (none if it never joined)
LeaveFreesOwn == hist.op = "left" =>
    /\ registry = (IF hist.key \in DOMAIN hist.before THEN Without(hist.before, hist.key) ELSE hist.before)
    /\ (hist.key # "" => hist.before[hist.key] = hist.c)
    /\ hist.key = mykey[hist.c]
\* a command goes to the current owner, or is answered not-exist in the same manager step
RouteToOwner == hist.op = "routed" =>
    routed[hist.k] = (IF hist.key \in DOMAIN hist.before THEN hist.before[hist.key] ELSE 0)
\* callbacks: joined once, left once with the same key
Callbacks == \A c \in Conns : joinCb[c] <= 1 /\ Len(leaveCb[c]) <= 1
                              /\ (Len(leaveCb[c]) = 1 => leaveCb[c][1] = (IF joinCb[c] = 1 THEN KeyOf[c] ELSE ""))
\* liveness: once every connection presenting a key is gone, the key is free again (reconnect succeeds)
KeyFreed == \A key \in Keys : [](( \A c \in Conns : KeyOf[c] = key => pc[c] = "dead") => key \notin DOMAIN registry)
=============================================================================
