"""Shared drivers for the attachment-session checks (C15, C16, C19, C10)."""
import json, os
import vlib
from checks.c01 import run_results


def mc_attach(ctx, configs, extra_replay_args=()):
    """configs: list of dicts of MC_Attach constants. Runs TLC (invariants on the spec, scripts emitted),
    then replays every script on the real connection loop under six segmentations."""
    for i, c in enumerate(configs):
        cases = os.path.join(ctx.scratch, "attach_scripts_%d.ndjson" % i)
        consts = {"D": '"%s"' % c["D"], "NFiles": c["NFiles"], "MaxChunk": c["MaxChunk"], "MaxSteps": c["MaxSteps"],
                  "MaxDup": c.get("MaxDup", 1), "Record": "TRUE", "Ver": c.get("Ver", 0)}
        ctx.tlc("MC_Attach", constants=consts, env={"VERIF_OUT": cases}, workers=12, name="MC_Attach_%s" % json.dumps(c, sort_keys=True))
        if not os.path.exists(cases):
            raise vlib.ToolFailure("MC_Attach emitted no scripts for %s" % c)
        res = os.path.join(ctx.scratch, "attach_res_%d.ndjson" % i)
        ctx.vh_ok(["attach-replay", cases, res] + list(extra_replay_args))
        run_results(ctx, res, "MC_Attach-scripts-replayed-on-attachment.connection.run %s" % c["D"])


def mc_attach_seg(ctx, variants):
    for d, ver in variants:
        cases = os.path.join(ctx.scratch, "attach_seg_%s_%d.ndjson" % (d, ver))
        ctx.tlc("MC_AttachSeg", constants={"D": '"%s"' % d, "Ver": ver}, env={"VERIF_OUT": cases}, workers=12,
                name="MC_AttachSeg_%s_%d" % (d, ver))
        res = os.path.join(ctx.scratch, "attach_segres_%s_%d.ndjson" % (d, ver))
        ctx.vh_ok(["attach-seg-replay", cases, res], timeout=1200)
        run_results(ctx, res, "every-1-and-2-cut-segmentation-replayed %s" % d)


def trace_attach(ctx, n, hostile=False, sig_prefix=""):
    tr = os.path.join(ctx.scratch, "attach_trace.ndjson")
    ctx.vh_ok(["attach-gen", n, tr] + (["hostile"] if hostile else []))
    events = vlib.read_nd(tr, quoted=False)
    verdict = os.path.join(ctx.scratch, "attach_verdict.json")
    res = ctx.tlc("Trace_Attach", env={"VERIF_TRACE": tr, "VERIF_OUT": verdict}, workers=1, timeout=1500)
    if res["distinct"] != len(events) + 1 or not os.path.exists(verdict):
        raise vlib.ToolFailure("Trace_Attach consumed %d of %d events:\n%s" % (res["distinct"] - 1, len(events), res["out"][-2000:]))
    v = vlib.read_nd(verdict)[0]
    sess = {}
    for e in events:
        sess.setdefault(e["sess"], []).append(e)
    for b in v["bad"]:
        es = sess[b["sess"]]
        cls = es[0].get("class", "?")
        e = events[b["l"] - 1]
        extra = ""
        if b["what"] == "QuitMatch":
            extra = " impl-quit=%s" % e.get("quit")
        ctx.violation("%s%s class=%s%s" % (sig_prefix, b["what"], cls, extra),
                      "session %d event %d rejected by Trace_Attach: %s" % (b["sess"], b["l"], json.dumps(e)[:600]),
                      {"kind": "attach-session", "events": es})
    nsess = len(sess)
    ctx.note_impl("attachment-sessions-validated-by-Trace_Attach" + ("(hostile)" if hostile else ""), nsess,
                  events=len(events), rejected=len(v["bad"]))
    classes = {}
    for es in sess.values():
        classes[es[0].get("class", "?")] = classes.get(es[0].get("class", "?"), 0) + 1
    ctx.cov.setdefault("session_classes", {}).update(classes)
    s0 = sess[min(sess)]
    ctx.sample({"from": "impl-session", "class": s0[0].get("class"), "dialect": s0[0].get("dialect"),
                "reads": [len(e.get("bytes", [])) for e in s0 if e["ev"] == "read"][:12],
                "obs": [[o["kind"], o["stage"]] for e in s0 for o in e.get("obs", [])][:12]})


def replay_session(ctx, r):
    """replay file kinds shared by the attachment checks"""
    if "script" in r:
        f = os.path.join(ctx.scratch, "one.ndjson"); open(f, "w").write(json.dumps(r["script"]) + "\n")
        out = os.path.join(ctx.scratch, "one_res.ndjson")
        if "cuts" in r:
            ctx.vh_ok(["attach-seg-replay", f, out])
        else:
            ctx.vh_ok(["attach-replay", f, out, "parse9212"])
        run_results(ctx, out, "replay")
    elif r.get("kind") == "attach-session":
        # feed the recorded reads to the real loop again and validate with the trace spec
        f = os.path.join(ctx.scratch, "one_sess.ndjson"); open(f, "w").write("\n".join(json.dumps(e) for e in r["events"]) + "\n")
        tr = os.path.join(ctx.scratch, "attach_trace.ndjson")
        ctx.vh_ok(["attach-rerun", f, tr])
        events = vlib.read_nd(tr, quoted=False)
        verdict = os.path.join(ctx.scratch, "attach_verdict.json")
        ctx.tlc("Trace_Attach", env={"VERIF_TRACE": tr, "VERIF_OUT": verdict}, workers=1)
        for b in vlib.read_nd(verdict)[0]["bad"]:
            ctx.violation("%s class=%s" % (b["what"], events[0].get("class", "?")), "replayed session rejected", {"kind": "attach-session", "events": events})
        ctx.note_impl("replay", 1)


def big_uploads(ctx):
    """files of tens / hundreds of kilobytes (64 KiB chunks, lengths beyond 16 bits) through the real connection loop, summarised
    per session and validated by Trace_BigUpload (ranges by Attach!MissIntervals; MC_Miss shows it equal to MissSegments)"""
    from checks.c01 import trace_validate
    tr = os.path.join(ctx.scratch, "big_uploads.ndjson")
    ctx.vh_ok(["c15-big", tr], timeout=600)
    events = vlib.read_nd(tr, quoted=False)
    trace_validate(ctx, "Trace_BigUpload", tr, events, "large-upload-sessions-validated-by-Trace_BigUpload",
                   lambda inv, e: "%s size=%s dialect=%s" % (inv, e.get("size"), e.get("dialect")))
