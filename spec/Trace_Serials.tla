----------------------------- MODULE Trace_Serials -----------------------------
(* C06, platform serial numbering across the 16-bit wrap: 65540 heartbeats on  *)
(* one connection; the i-th frame the server writes must be the general        *)
(* response to the i-th heartbeat, stamped with platform serial (i-1) mod      *)
(* 65536.  Sampled: the first 30, every 8192nd, and every one from 65500 on.   *)
EXTENDS Replies, TLC, Json, IOUtils
Trace == ndJsonDeserialize(IOEnv.VERIF_TRACE)
VARIABLE l
Init == l = 0
Next == l = 0 /\ l' \in 1..Len(Trace)
E == Trace[l]
Hb == [id |-> 2, ver |-> E.ver, phone |-> E.phone, digits |-> PhoneDigits(E.phone), serial |-> E.tserial, body |-> <<>>, enc |-> 0]
ReplyNumbered == l = 0 \/ E.ev # "reply" \/ Mat(E.frame) = Mat(ReplyFrame(Hb, (E.i - 1) % 65536))
AllArrived == l = 0 \/ E.ev # "count" \/ E.i = 65540
=============================================================================
