"""C03 Decoders are total functions of their input (DESIGN.md section 5, C03)."""
import json, os
import vlib
from checks.c01 import run_results

LEVEL = "exploration"


def check(ctx):
    thorough = ctx.tier == "thorough"
    ctx.build()
    seeds = os.path.join(ctx.scratch, "c03_seeds.ndjson")
    # valid bodies per version / dialect from the specification's layouts (the captures only know the 2013 / JS forms)
    lay = os.path.join(ctx.scratch, "c03_layout_cases.ndjson")
    ctx.tlc("MC_Layouts", constants={"MaxList": 2}, env={"VERIF_OUT": lay}, workers=1)
    ctx.vh_ok(["c03-seeds", seeds, lay])
    all_seeds = vlib.read_nd(seeds, quoted=False)
    if not thorough:
        # quick: per (target, ver, dialect) the two longest seeds and the shortest
        by = {}
        for s in all_seeds:
            by.setdefault((s["t"], s["ver"], s["dialect"]), []).append(s)
        pick = []
        for k, ss in by.items():
            ss.sort(key=lambda s: -len(s["body"]))
            if k[0] in ("jt1078.Decode", "jt808.Decode"):
                pick += ss          # few and short: keep them all (history test runs over all seed pairs)
            else:
                pick += ss[:2] + ([ss[-1]] if len(ss) > 2 else [])      # the two longest and the shortest
        with open(seeds, "w") as f:
            for s in pick:
                f.write(json.dumps(s) + "\n")
        all_seeds = pick
    cases = os.path.join(ctx.scratch, "c03_cases.ndjson")
    ctx.tlc("MC_Mutate", env={"VERIF_SEEDS": seeds, "VERIF_OUT": cases}, workers=12, timeout=2400)
    res = os.path.join(ctx.scratch, "c03_res.ndjson")
    ctx.vh_ok(["c03-replay", cases, res, seeds], timeout=3000)
    n = 0
    for r in vlib.read_nd(res, quoted=False):
        if r.get("summary"):
            ctx.cov["evaluations"] += r["cases"]; ctx.cov["distinct_nontrivial"] += r["distinct"]
            ctx.cov["classes"] = r.get("classes")
            for s in r.get("samples") or []:
                ctx.sample({"from": "MC_Mutate", "case": s})
        else:
            ctx.violation(r["sig"], r["detail"], {"kind": "c03-case", "case": r["case"]})
    ctx.cov["seeds"] = len(all_seeds)
    ctx.cov["targets"] = sorted(set(s["t"] for s in all_seeds))
    ctx.cov["rule"] = ("TLC (MC_Mutate) enumerates every single mutation (every truncation, byte substitution by 00/01/7F/80/FF, 16-bit FF FF / 00 00, "
                       "insertion, deletion, extension) of valid seed bodies of every decoder target (message types x header version x dialect, the vendor "
                       "extensions, jt808 and jt1078 Decode); each case is decoded from an exact-capacity slice, from two larger buffers with different "
                       "tails, and by a receiver that already parsed the previous body; distinct = distinct (target, mutation kind, verdict, length).")
    ctx.cov["exhaustive"] = True
    ctx.assumptions += ["the oracle for panic / non-termination / over-read / history dependence is the Go runtime and value comparison (JSON + String()), not the specification",
                        "seeds come from the repository's own encoders (terminal simulator defaults), the frames quoted in its test files, and the bodies MC_Layouts generates for every specified type, version and dialect",
                        "user-supplied CustomAdditionContentFunc callbacks are exercised only with the five shipped extension parsers"]


def replay(ctx, path):
    r = json.load(open(path))["replay"]
    ctx.build()
    f = os.path.join(ctx.scratch, "one.ndjson")
    # the history test needs a predecessor: replay the case twice
    open(f, "w").write(json.dumps(r["case"]) + "\n" + json.dumps(r["case"]) + "\n")
    out = os.path.join(ctx.scratch, "one_res.ndjson")
    ctx.vh_ok(["c03-replay", f, out]); run_results(ctx, out, "replay")
