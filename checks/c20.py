"""C20 The terminal simulator and the codec agree (DESIGN.md section 5, C20)."""
import json, os
import vlib
from checks.c01 import trace_validate

LEVEL = "model_checking"


def check(ctx):
    thorough = ctx.tier == "thorough"
    ctx.build()
    cfgs = os.path.join(ctx.scratch, "c20_configs.ndjson")
    ctx.tlc("MC_Terminal", env={"VERIF_OUT": cfgs}, workers=8)
    tr = os.path.join(ctx.scratch, "c20_trace.ndjson")
    r = ctx.vh(["c20-run", cfgs, tr, "wrap"], timeout=1800)      # wrap: 65540 consecutive frames of one terminal, sampled around the 16-bit wrap
    if r.returncode != 0:
        from checks import live_common as lc
        lc.crash_check(ctx, r.returncode, r.stderr, "c20-run")
    events = vlib.read_nd(tr, quoted=False)

    def sig(inv, e):
        return "%s ver=%s cmd=%04x kind=%s" % (inv, e.get("ver"), e.get("cmd", 0), e.get("kind"))
    trace_validate(ctx, "Trace_Terminal", tr, events, "simulator-frames-and-replies-validated-by-Trace_Terminal", sig, timeout=2400)
    for e in events:
        if not e.get("bodyok") and e.get("bodynote"):
            ctx.cov.setdefault("body_notes", {})[e["bodynote"][:80]] = 1
    ctx.cov["rule"] = ("MC_Terminal enumerates version x phone (boundary lengths, all zero, twenty digits beyond 2^64-1, phones whose header-template checksum is 7E / 7D) x the 24 "
                       "default commands and checks SimFrameOk on the specification; for each configuration the real simulator generates the frames "
                       "(plus custom bodies 0..1023 bytes and 65540 consecutive frames of one terminal), which are decoded, parsed and re-encoded with the "
                       "matching model type; ExpectedReply and the reply of a live server are compared with Replies!ReplyFrame by Trace_Terminal.")
    ctx.cov["exhaustive"] = True
    ctx.assumptions += ["phones are decimal and fit the field (the property's domain)",
                        "body round trip is judged for ids that have a model type with Parse and Encode; P0x8003/P0x8100 defaults are encoded by the simulator's own handle"]


def replay(ctx, path):
    r = json.load(open(path))["replay"]
    ctx.build()
    tr = os.path.join(ctx.scratch, "one_tr.ndjson"); open(tr, "w").write(json.dumps(r["event"]) + "\n")
    trace_validate(ctx, "Trace_Terminal", tr, [r["event"]], "replay", lambda inv, e: inv)
