------------------------------- MODULE Layouts -------------------------------
(* The wire layout of every two-way message type that is specified here,       *)
(* transcribed from JT/T 808, JT/T 1078 and the active-safety extensions.       *)
(* Field names are the implementation's exported field names (the binding).     *)
EXTENDS Layout

U(n, w) == [k |-> "u", n |-> n, w |-> w]
Raw(n, w) == [k |-> "raw", n |-> n, w |-> w]
Bcd(n) == [k |-> "bcd", n |-> n, w |-> 6]
LStr(n, ln) == [k |-> "lstr", n |-> n, ln |-> ln, lw |-> 1]
LStr1(n, ln) == [k |-> "lstr", n |-> n, ln |-> ln, lw |-> 1, min |-> 1]     \* at least one byte (a file name)
Rest(n) == [k |-> "rest", n |-> n]
UList(n, cn, cw, w) == [k |-> "ulist", n |-> n, cn |-> cn, cw |-> cw, w |-> w]
OptUList(n, cn, cw, w) == [k |-> "optulist", n |-> n, cn |-> cn, cw |-> cw, w |-> w]
List(n, cn, cw, item) == [k |-> "list", n |-> n, cn |-> cn, cw |-> cw, item |-> item]

FStr(n, w) == [k |-> "fstr", n |-> n, w |-> w]
TRest(n, mx) == [k |-> "trest", n |-> n, mx |-> mx]          \* mx: longest text generated
Items(n, cn, mn, item) == [k |-> "items", n |-> n, cn |-> cn, min |-> mn, item |-> item]
RecLen(n, w) == [k |-> "reclen", n |-> n, w |-> w]

LocationBase == <<U("AlarmSign", 4), U("StatusSign", 4), U("Latitude", 4), U("Longitude", 4), U("Altitude", 2), U("Speed", 2),
                  U("Direction", 2), Bcd("DateTime")>>

\* 0x0100 register: field widths by protocol version (2011 / 2013 / 2019).  On the wire 2011 and 2013 share a header;
\* a body longer than 36 bytes is 2013 by the implementation's documented rule, so a 2011 plate has at most 11 bytes.
Register(m, t, id, plate) == <<U("ProvinceID", 2), U("CityID", 2), FStr("ManufacturerID", m), FStr("TerminalModel", t), FStr("TerminalID", id),
                               U("PlateColor", 1), TRest("LicensePlateNumber", plate)>>
\* active-safety alarm sign by dialect (1 JS, 2 HLJ, 3 GD, 4 HN, 5 SC): terminal id, BCD time, serial, attachment count, reserve
IdLen(d) == CASE d \in {1, 4} -> 7 [] OTHER -> 30
SignLen(d) == CASE d = 1 -> 16 [] d = 2 -> 38 [] d = 3 -> 40 [] d = 4 -> 32 [] d = 5 -> 39
Sign(d) == <<FStr("P9208AlarmSign.TerminalID", IdLen(d)), Bcd("P9208AlarmSign.Time"), U("P9208AlarmSign.SerialNumber", 1),
             U("P9208AlarmSign.AttachNumber", 1), Raw("P9208AlarmSign.AlarmReserve", SignLen(d) - IdLen(d) - 8)>>
AlarmAttach(d) == (IF d = 2 THEN <<>> ELSE <<FStr("TerminalID", IdLen(d))>>) \o Sign(d)
                  \o <<FStr("AlarmID", 32), U("InfoType", 1),
                       List("T0x1210AlarmItemList", "AttachCount", 1, <<LStr1("FileName", "FileNameLen"), U("FileSize", 4)>>)>>
AttachUpload(d) == <<LStr("ServerAddr", "ServerIPLen"), U("TcpPort", 2), U("UdpPort", 2)>> \o Sign(d) \o <<FStr("AlarmID", 32), Rest("Reserve")>>

LayoutOf == [
  T0x0100_v1 |-> Register(5, 8, 7, 11), T0x0100_v2 |-> Register(5, 20, 7, 17), T0x0100_v3 |-> Register(11, 30, 30, 17),
  T0x0102_v2 |-> <<Rest("AuthCode")>>,
  T0x0102_v3 |-> <<LStr("AuthCode", "AuthCodeLen"), Raw("TerminalIMEI", 15), FStr("SoftwareVersion", 20)>>,
  T0x0704 |-> <<U("Num", 2), U("LocationType", 1), Items("Items", "Num", 1, <<RecLen("Len", 2)>> \o LocationBase)>>,
  T0x1210_d1 |-> AlarmAttach(1), T0x1210_d2 |-> AlarmAttach(2), T0x1210_d3 |-> AlarmAttach(3), T0x1210_d4 |-> AlarmAttach(4),
  T0x1210_d5 |-> AlarmAttach(5),
  P0x9208_d1 |-> AttachUpload(1), P0x9208_d2 |-> AttachUpload(2), P0x9208_d3 |-> AttachUpload(3), P0x9208_d4 |-> AttachUpload(4),
  P0x9208_d5 |-> AttachUpload(5),
  P0x8104 |-> <<>>, P0x9003 |-> <<>>,
  T0x0001 |-> <<U("SerialNumber", 2), U("ID", 2), U("Result", 1)>>,
  P0x8001 |-> <<U("RespondSerialNumber", 2), U("RespondID", 2), U("Result", 1)>>,
  P0x8003 |-> <<U("OriginalSerialNumber", 2), UList("AgainPackageList", "AgainPackageCount", 1, 2)>>,
  P0x8100 |-> <<U("RespondSerialNumber", 2), U("Result", 1), Rest("AuthCode")>>,
  T0x0200 |-> LocationBase,
  T0x0800 |-> <<U("MultimediaID", 4), U("MultimediaType", 1), U("MultimediaFormatEncode", 1), U("EventItemEncode", 1), U("ChannelID", 1)>>,
  T0x0801 |-> <<U("MultimediaID", 4), U("MultimediaType", 1), U("MultimediaFormatEncode", 1), U("EventItemEncode", 1), U("ChannelID", 1)>>
              \o LocationBase \o <<Rest("MultimediaPackage")>>,
  T0x0805 |-> <<U("RespondSerialNumber", 2), U("Result", 1), UList("MultimediaIDList", "MultimediaIDNumber", 2, 4)>>,
  \* "if every packet was received there are no further fields": count and id list are absent for an empty list
  P0x8800 |-> <<U("MultimediaID", 4), OptUList("AgainPackageList", "AgainPackageCount", 1, 2)>>,
  P0x8801 |-> <<U("ChannelID", 1), U("ShootCommand", 2), U("PhotoIntervalOrVideoTime", 2), U("SaveFlag", 1), U("Resolution", 1),
                U("VideoQuality", 1), U("Intensity", 1), U("Contrast", 1), U("Saturation", 1), U("Chroma", 1)>>,
  T0x1003 |-> <<U("EnterAudioEncoding", 1), U("EnterAudioChannelsNumber", 1), U("EnterAudioSampleRate", 1), U("EnterAudioSampleDigits", 1),
                U("AudioFrameLength", 2), U("HasSupportedAudioOutput", 1), U("VideoEncoding", 1),
                U("TerminalSupportedMaxNumberOfAudioPhysicalChannels", 1), U("TerminalSupportedMaxNumberOfVideoPhysicalChannels", 1)>>,
  T0x1005 |-> <<Bcd("StartTime"), Bcd("EndTime"), U("BoardNumber", 2), U("AlightNumber", 2)>>,
  T0x1205 |-> <<U("SerialNumber", 2), List("AudioVideoResourceList", "AudioVideoResourceTotal", 4,
                  <<U("ChannelNo", 1), Bcd("StartTime"), Bcd("EndTime"), U("AlarmFlag", 8), U("AudioVideoResourceType", 1),
                    U("StreamType", 1), U("MemoryType", 1), U("FileSizeByte", 4)>>)>>,
  T0x1206 |-> <<U("RespondSerialNumber", 2), U("Result", 1)>>,
  T0x1211 |-> <<LStr("FileName", "FileNameLen"), U("FileType", 1), U("FileSize", 4)>>,
  P0x9101 |-> <<LStr("ServerIPAddr", "ServerIPLen"), U("TcpPort", 2), U("UdpPort", 2), U("ChannelNo", 1), U("DataType", 1), U("StreamType", 1)>>,
  P0x9102 |-> <<U("ChannelNo", 1), U("ControlCmd", 1), U("CloseAudioVideoData", 1), U("StreamType", 1)>>,
  P0x9105 |-> <<U("ChannelNo", 1), U("PackageLossRate", 1)>>,
  P0x9201 |-> <<LStr("ServerIPAddr", "ServerIPLen"), U("TcpPort", 2), U("UdpPort", 2), U("ChannelNo", 1), U("MediaType", 1), U("StreamType", 1),
                U("MemoryType", 1), U("PlaybackWay", 1), U("PlaySpeed", 1), Bcd("StartTime"), Bcd("EndTime")>>,
  P0x9202 |-> <<U("ChannelNo", 1), U("PlayControl", 1), U("PlaySpeed", 1), Bcd("DateTime")>>,
  P0x9205 |-> <<U("ChannelNo", 1), Bcd("StartTime"), Bcd("EndTime"), U("AlarmFlag", 8), U("MediaType", 1), U("StreamType", 1), U("StorageType", 1)>>,
  P0x9206 |-> <<LStr("FTPAddr", "FTPAddrLen"), U("Port", 2), LStr("Username", "UsernameLen"), LStr("Password", "PasswordLen"),
                LStr("FileUploadPath", "FileUploadPathLen"), U("ChannelNo", 1), Bcd("StartTime"), Bcd("EndTime"), U("AlarmFlag", 8),
                U("MediaType", 1), U("StreamType", 1), U("MemoryPosition", 1), U("TaskExecuteCondition", 1)>>,
  P0x9207 |-> <<U("RespondSerialNumber", 2), U("UploadControl", 1)>>,
  P0x9212 |-> <<LStr("FileName", "FileNameLen"), U("FileType", 1), U("UploadResult", 1),
                List("P0x9212RetransmitPacketList", "RetransmitPacketNumber", 1, <<U("DataOffset", 4), U("DataLength", 4)>>)>>
]
Types == DOMAIN LayoutOf

-----------------------------------------------------------------------------
(* Terminal parameters (0x8103 set parameters; table 12 of JT/T 808-2013 and its 2019 / JT/T 1078      *)
(* additions): a parameter is id(4) len(1) content.  Width per id; 0 = STRING (any length).            *)
(* Ids that are not in the table (reserved or vendor specific) are kept verbatim.                      *)
DwordIds == {1, 2, 3, 4, 5, 6, 7, 27, 28, 32, 34, 39, 40, 41, 44, 45, 46, 47, 48, 69, 70, 71, 80, 81, 82, 83, 84, 85, 86, 87, 88, 89, 90,
             100, 101, 112, 113, 114, 115, 116, 128, 147, 149, 256, 258}
WordIds == {49, 91, 92, 93, 94, 129, 130, 257, 259}
StringIds == {16, 17, 18, 19, 20, 21, 22, 23, 26, 29, 35, 36, 37, 38, 64, 65, 66, 67, 68, 72, 73, 131}
ByteIds == {132, 144, 145, 146, 148}
ParamWidth(id) == IF id \in DwordIds THEN 4 ELSE IF id \in WordIds THEN 2 ELSE IF id \in ByteIds THEN 1
                  ELSE IF id = 50 THEN 4 ELSE IF id = 272 THEN 8 ELSE 0          \* 0x0032 BYTE[4], 0x0110 BYTE[8]
KnownIds == DwordIds \cup WordIds \cup StringIds \cup ByteIds \cup {50, 272}
\* Deviation of the implementation (known finding, pinned by TestParse / TestTerminalParamDetails): the standard's DWORD parameters
\* 0x0018, 0x0019 (server TCP / UDP port) and 0x0021 (position reporting plan) have fields of their own, and Encode writes those
\* fields, but Parse files the three ids with the unknown ones.  The table above is the one Parse implements: here they are
\* "not known", i.e. kept verbatim, which round-trips; a value that uses their own fields does not (probed by the bridge).
FieldButVerbatim == {24, 25, 33}
\* ps : set of [id, b].  Encoding order of the implementation: table ids ascending, then the others ascending.
ParamBytes(p) == UBytes(p.id, 4) \o <<Len(p.b)>> \o p.b
Ordered(ps) == LET known == {p \in ps : p.id \in KnownIds} other == ps \ known
                   srt(S) == SortSeq(SetToSeq(S), LAMBDA a, b : a.id < b.id)
               IN srt(known) \o srt(other)
Body8103(ps) == <<Cardinality(ps)>> \o Concat(Mat([i \in 1..Cardinality(ps) |-> ParamBytes(Ordered(ps)[i])]))
=============================================================================
