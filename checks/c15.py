"""C15 Attachment upload: files are reassembled byte-exactly (DESIGN.md section 5, C15)."""
import json
import vlib
from checks import attach_common as ac

LEVEL = "model_checking"


def check(ctx):
    thorough = ctx.tier == "thorough"
    ctx.build()
    cfgs = [dict(D="JS", NFiles=1, MaxChunk=2, MaxSteps=7, Ver=0),
            dict(D="HLJ", NFiles=2, MaxChunk=3, MaxSteps=6, Ver=1)]
    if thorough:
        cfgs = [dict(D="JS", NFiles=1, MaxChunk=3, MaxSteps=9, MaxDup=2, Ver=0),
                dict(D="HLJ", NFiles=2, MaxChunk=3, MaxSteps=8, Ver=1),
                dict(D="GD", NFiles=2, MaxChunk=4, MaxSteps=8, Ver=0),
                dict(D="HN", NFiles=1, MaxChunk=2, MaxSteps=8, Ver=1),
                dict(D="SC", NFiles=2, MaxChunk=3, MaxSteps=7, Ver=0)]
    ac.mc_attach(ctx, cfgs)
    ac.mc_attach_seg(ctx, [("HLJ", 0)] if not thorough else [("HLJ", 0), ("JS", 1), ("GD", 0), ("HN", 1), ("SC", 0)])
    ac.trace_attach(ctx, 1500 if thorough else 150)
    ac.big_uploads(ctx)
    ctx.cov["rule"] = ("MC_Attach: every behaviour of a terminal announcing NFiles files and sending 0x1211, any disjoint split into "
                       "chunks <= MaxChunk in any order with exact resends, interleaved files, early/late 0x1212, up to MaxSteps units; "
                       "each terminal behaviour is a script replayed under 6 segmentations. MC_AttachSeg: all (i<j) cut pairs of a fixed "
                       "two-file script. Distinct = distinct scripts / cut pairs / recorded sessions.")
    ctx.cov["exhaustive"] = True
    ctx.assumptions += ["chunks are pieces of the announced file (offset+length <= size), pairwise disjoint or exact resends",
                        "in-memory net.Conn with scripted Read sizes stands for TCP segmentation (attachment accepts net.Conn)",
                        "file sizes below 2^31 (TLC integers)"]


def replay(ctx, path):
    ctx.build()
    r = json.load(open(path))["replay"]
    if str(r.get("kind", "")).startswith("large-upload"):      # the large sessions are cheap: all of them are run again
        ac.big_uploads(ctx); return
    ac.replay_session(ctx, r)
