"""C04 Stream framing is independent of TCP segmentation (DESIGN.md section 5, C04)."""
import json
from checks import extract_common as xc

LEVEL = "model_checking"


def check(ctx):
    thorough = ctx.tier == "thorough"
    ctx.build()
    variants = [(1, "{}"), (2, "{}"), (4, "{}"), (5, "{}"), (6, "{}"), (8, "{}")]
    if thorough:
        variants.append((3, "{1, 2, 511, 1022, 1023}"))
    xc.mc_stream(ctx, variants)
    xc.trace_extract(ctx, 300 if thorough else 40)
    live(ctx)
    ctx.cov["rule"] = ("MC_Stream: all partitions of fixed streams of valid frames (both versions, escapes, empty bodies, raw-7D checksum, "
                       "frames longer than the 1023-byte read buffer) into reads; Seg invariant on the spec; every (i<j) cut pair replayed on the "
                       "real extractor. Random re-segmented sessions validated by Trace_Extract.")
    ctx.cov["exhaustive"] = True
    ctx.assumptions += ["streams consist of valid frames (the property's domain); garbage between frames is C10's subject",
                        "accessor Feed() = the reader's per-Read call of packageParse.parse; chunks are fresh slices (aliasing is C09)"]


def live(ctx):
    try:
        from checks import live_common
    except ImportError:
        return
    live_common.live_segmentation(ctx)


def replay(ctx, path):
    ctx.build()
    xc.replay_any(ctx, json.load(open(path))["replay"])
