package main

// Live-server harness: a real service.GoJT808 on a loopback port inside this (child) process,
// harness terminals over real TCP, a recorder fed by the public callbacks (TerminalEventer),
// the verif hook points and the terminals' own socket I/O.  All events go through one mutex and
// get a global stamp there: causally ordered events are stamped in causal order (no wall clock).

import (
	"bytes"
	"encoding/json"
	"errors"
	"fmt"
	"net"
	"os"
	"strings"
	"sync"
	"sync/atomic"
	"syscall"
	"time"

	"github.com/cuteLittleDevil/go-jt808/protocol/jt808"
	"github.com/cuteLittleDevil/go-jt808/service"
	"github.com/cuteLittleDevil/go-jt808/shared/consts"
)

type ev map[string]any

type recorder struct {
	t0   time.Time
	mu   sync.Mutex
	g    int
	evs  []ev
	file *os.File
}

func (r *recorder) log(c int, proc, name string, kv ...any) {
	e := ev{"c": c, "p": proc, "ev": name}
	for i := 0; i+1 < len(kv); i += 2 {
		e[kv[i].(string)] = kv[i+1]
	}
	r.mu.Lock()
	r.g++
	e["g"] = r.g
	if r.t0.IsZero() {
		r.t0 = time.Now()
	}
	e["tms"] = int(time.Since(r.t0).Milliseconds()) // monotonic, taken under the same mutex as g; only compared with wide margins
	r.evs = append(r.evs, e)
	if r.file != nil { // streamed, so that a process-wide panic leaves the prefix on disk
		b, _ := json.Marshal(e)
		r.file.Write(append(b, '\n'))
	}
	r.mu.Unlock()
}

type live struct {
	quietIdx  atomic.Int64
	quiet     bool         // VERIF_NOHOOKS: no hook function and no-op callbacks, so that the harness adds no synchronisation between the server's goroutines (C18)
	slackMs   atomic.Int64 // how late a time-out result may be (ms); 0 = 1300; scenarios that never park the writer set less
	left      sync.Map     // connection index -> true once its leave callback has run
	muted     sync.Map     // connection index -> *atomic.Int64: per-message events of a flooding connection are counted, not recorded
	noFilter  bool         // the server runs WithHasSubcontract(false)
	g         *service.GoJT808
	addr      string
	rec       *recorder
	mu        sync.Mutex
	evs       []*liveEventer                                        // accept order
	conns     map[any]int                                           // connection pointer (hooks) -> index
	chans     map[any]int                                           // registry channel (manager hooks) -> index
	newConn   chan int                                              // signalled when a connection's writer started (first hook)
	gate      atomic.Pointer[func(c int, point string, args []any)] // optional scheduler gate (steering)
	cmds      sync.Map                                              // *service.ActiveMessage -> caller id
	readHold  func(c int, m *service.Message)                       // optional: runs inside the read callback
	onJoin    func(c int, key string, err error)                    // optional: runs inside the join callback (after it was recorded)
	replyHold func(c int, serial int)                               // optional: runs at W.reply.before
	writeHold atomic.Pointer[func(c int)]                           // optional: runs inside the write callback (holds the writer)
}

type liveEventer struct {
	l   *live
	idx int
}

func msgFields(m *service.Message) []any {
	h := m.JTMessage.Header
	return []any{"id", int(h.ID), "serial", int(h.SerialNumber), "total", int(h.SubPackageSum), "no", int(h.SubPackageNo),
		"complete", m.ExtensionFields.SubcontractComplete, "body", append(B{}, m.JTMessage.Body...),
		"digits", digitsOf(h.TerminalPhoneNo), "raw", append(B{}, m.ExtensionFields.TerminalData...)}
}

func (e *liveEventer) OnJoinEvent(msg *service.Message, key string, err error) {
	if e.l.quiet {
		return
	}
	es := ""
	if err != nil {
		es = err.Error()
	}
	_ = msg.JTMessage.Header.String() // (an application may read all of the message it is handed, here and now)
	e.l.rec.log(e.idx, "R", "join", "key", key, "ok", err == nil, "err", es, "serial", int(msg.JTMessage.Header.SerialNumber))
	if e.l.readHold != nil { // C09: messages handed to the join callback are retained as well
		e.l.readHold(e.idx, msg)
	}
	if e.l.onJoin != nil {
		e.l.onJoin(e.idx, key, err)
	}
}
func (e *liveEventer) OnLeaveEvent(key string) {
	if e.l.quiet {
		return
	}
	e.l.rec.log(e.idx, "R", "leave", "key", key)
	e.l.left.Store(e.idx, true)
}

// waitLeft waits until the leave callback of connection c has run (its key is free from then on), at most d
func (l *live) waitLeft(c int, d time.Duration) bool {
	for dl := time.Now().Add(d); time.Now().Before(dl); time.Sleep(5 * time.Millisecond) {
		if _, ok := l.left.Load(c); ok {
			return true
		}
	}
	_, ok := l.left.Load(c)
	return ok
}
func (e *liveEventer) OnNotSupportedEvent(msg *service.Message) {
	if e.l.quiet {
		return
	}
	e.l.rec.log(e.idx, "R", "unsupported", msgFields(msg)...)
	if e.l.readHold != nil {
		e.l.readHold(e.idx, msg)
	}
}
func (e *liveEventer) OnReadExecutionEvent(msg *service.Message) {
	if e.l.quiet {
		return
	}
	if n, ok := e.l.muted.Load(e.idx); ok {
		n.(*atomic.Int64).Add(1)
		return
	}
	e.l.rec.log(e.idx, "R", "readcb", msgFields(msg)...)
	if e.l.readHold != nil {
		e.l.readHold(e.idx, msg)
	}
}
func (e *liveEventer) OnWriteExecutionEvent(msg service.Message) {
	if e.l.quiet {
		return
	}
	if n, ok := e.l.muted.Load(e.idx); ok {
		n.(*atomic.Int64).Add(1)
		return
	}
	errs := ""
	if msg.ExtensionFields.Err != nil {
		errs = msg.ExtensionFields.Err.Error()
	}
	e.l.rec.log(e.idx, "W", "writecb", "data", append(B{}, msg.ExtensionFields.PlatformData...), "active", msg.ExtensionFields.ActiveSend,
		"pseq", int(msg.ExtensionFields.PlatformSeq), "cmd", int(msg.ExtensionFields.PlatformCommand), "err", errs,
		"tserial", int(msg.ExtensionFields.TerminalSeq))
	if h := e.l.writeHold.Load(); h != nil {
		(*h)(e.idx)
	}
}

func errKind(err error) string {
	switch {
	case err == nil:
		return ""
	case errors.Is(err, service.ErrWriteDataOverTime):
		return "timeout"
	case errors.Is(err, service.ErrWriteDataFail):
		switch {
		case strings.Contains(err.Error(), "connection closed"):
			return "closed" // the connection stopped with the command outstanding or queued
		case strings.Contains(err.Error(), "too many pending"):
			return "busy" // the terminal's command queue is full
		}
		return "writefail"
	case errors.Is(err, service.ErrNotExistKey):
		return "notexist"
	}
	return "other:" + err.Error()
}

// hook translates verif hook points into trace events (and runs the optional gate)
func (l *live) hook(conn any, point string, args []any) {
	c := -1
	if conn != nil {
		l.mu.Lock()
		idx, ok := l.conns[conn]
		if !ok {
			idx = len(l.conns)
			l.conns[conn] = idx
			l.chans[service.VerifConnChan(conn)] = idx
			select {
			case l.newConn <- idx:
			default:
			}
		}
		c = idx
		l.mu.Unlock()
	}
	if n, ok := l.muted.Load(c); ok && (point == "W.sel.msg" || point == "W.reply.before" || point == "W.top" || strings.HasPrefix(point, "R.")) {
		n.(*atomic.Int64).Add(1)
		return
	}
	switch point {
	case "W.sel.msg":
		if ok, _ := args[0].(bool); ok {
			m := args[1].(*service.Message)
			l.rec.log(c, "W", "w_msg", "id", int(m.JTMessage.Header.ID), "serial", int(m.JTMessage.Header.SerialNumber),
				"complete", m.ExtensionFields.SubcontractComplete, "total", int(m.JTMessage.Header.SubPackageSum))
		}
	case "W.reply.before":
		l.rec.log(c, "W", "reply_begin", "serial", int(args[0].(uint16)))
		if l.replyHold != nil {
			l.replyHold(c, int(args[0].(uint16)))
		}
	case "W.active.recorded":
		am := args[1].(*service.ActiveMessage)
		k := -1
		if v, ok := l.cmds.Load(am); ok {
			k = v.(int)
		}
		l.rec.log(c, "W", "cmd_written", "k", k, "seq", int(args[0].(uint16)))
	case "W.active.written":
		if args[1] != nil {
			l.rec.log(c, "W", "cmd_write_failed", "seq", int(args[0].(uint16)))
		}
	case "W.resp.match":
		l.rec.log(c, "W", "resp_match", "seq", int(args[0].(uint16)))
	case "W.sel.complete":
		if ok, _ := args[0].(bool); ok {
			m := args[1].(*service.Message)
			kind := "resp"
			if m.ExtensionFields.Err != nil {
				kind = errKind(m.ExtensionFields.Err)
			}
			l.rec.log(c, "W", "w_complete", "seq", int(m.ExtensionFields.PlatformSeq), "kind", kind)
		}
	case "W.sel.reissue":
		if ok, _ := args[0].(bool); ok {
			var body B
			if m, _ := args[1].(*service.Message); m != nil && m.JTMessage != nil {
				body = append(B{}, m.JTMessage.Body...)
			}
			l.rec.log(c, "W", "w_reissue", "body", body)
		}
	case "W.stop":
		l.rec.log(c, "W", "w_stop")
	case "W.exit":
		l.rec.log(c, "W", "w_exit")
	case "S.begin":
		l.rec.log(c, "R", point, "key", service.VerifConnKey(conn))
	case "S.left", "S.stopClosed", "S.connClosed", "S.chansClosed":
		l.rec.log(c, "R", point)
	case "M.join.ok", "M.join.refused":
		l.mu.Lock()
		ci, ok := l.chans[args[1]]
		l.mu.Unlock()
		if !ok {
			ci = -2
		}
		l.rec.log(-1, "M", point, "key", args[0], "conn", ci)
	case "M.leave", "M.route.after":
		l.rec.log(-1, "M", point, "key", args[0])
	case "M.route.before", "M.route.notexist":
		k := -1
		if am, ok := args[1].(*service.ActiveMessage); ok {
			if v, ok := l.cmds.Load(am); ok {
				k = v.(int)
			}
		}
		l.rec.log(-1, "M", point, "key", args[0], "k", k)
	case "T.fire", "T.checked", "T.sent":
		l.rec.log(c, "T", point, "seq", int(args[0].(uint16)))
	}
	if g := l.gate.Load(); g != nil {
		(*g)(c, point, args)
	}
}

func freePort() string {
	ln, err := net.Listen("tcp", "127.0.0.1:0")
	if err != nil {
		die(err)
	}
	a := ln.Addr().String()
	ln.Close()
	return a
}

type liveOpts struct {
	filter   bool // default true
	noFilter bool
	handlers func() map[consts.JT808CommandType]service.Handler
	keyFunc  func(*service.Message) (string, bool)
	traceTo  string
}

func startLive(o liveOpts) *live {
	l := &live{rec: &recorder{}, conns: map[any]int{}, chans: map[any]int{}, newConn: make(chan int, 1024)}
	if o.traceTo != "" {
		f, err := os.Create(o.traceTo)
		if err != nil {
			die(err)
		}
		l.rec.file = f
	}
	l.addr = freePort()
	opts := []service.Option{service.WithHostPorts(l.addr), service.WithCustomTerminalEventer(func() service.TerminalEventer {
		l.mu.Lock()
		e := &liveEventer{l: l, idx: len(l.evs)}
		l.evs = append(l.evs, e)
		l.mu.Unlock()
		return e
	})}
	if o.noFilter {
		l.noFilter = true
		opts = append(opts, service.WithHasSubcontract(false))
	}
	if o.handlers != nil {
		opts = append(opts, service.WithCustomHandleFunc(o.handlers))
	}
	if o.keyFunc != nil {
		opts = append(opts, service.WithKeyFunc(o.keyFunc))
	}
	l.quiet = os.Getenv("VERIF_NOHOOKS") != ""
	if l.quiet {
		service.VerifSetHook(nil)
	} else {
		service.VerifSetHook(l.hook)
	}
	l.g = service.New(opts...)
	// the first Run() finds the port taken and returns (an operator's retry follows): there is still one server, one registry
	if busy, err := net.Listen("tcp", l.addr); err == nil {
		ran := make(chan struct{})
		go func() { l.g.Run(); close(ran) }()
		select {
		case <-ran:
		case <-time.After(2 * time.Second):
		}
		busy.Close()
	}
	go l.g.Run()
	// wait until the listener accepts
	for i := 0; i < 200; i++ {
		c, err := net.DialTimeout("tcp", l.addr, 100*time.Millisecond)
		if err == nil {
			// this probe connection becomes connection 0; close it and wait for its teardown
			if l.quiet {
				l.quietIdx.Add(1)
				time.Sleep(20 * time.Millisecond)
			} else {
				<-l.newConn
			}
			c.Close()
			return l
		}
		time.Sleep(10 * time.Millisecond)
	}
	die("server did not start listening on " + l.addr)
	return nil
}

// ---------------------------------------------------------------- harness terminals

type term struct {
	l      *live
	idx    int
	conn   *net.TCPConn
	phone  []byte
	ver    int
	serial int
	nrecv  atomic.Int64
	recvCh chan []byte
	closed atomic.Bool
	wmu    sync.Mutex
	smu    sync.Mutex
}

// dial connects one terminal; dials are serialised so that accept order = index order.
var dialMu sync.Mutex

func (l *live) dial(phone []byte, ver int) *term { return l.dialWith(phone, ver, false) }

// dialWith(noRead): a terminal that never reads and advertises a tiny receive window (SO_RCVBUF set before connect),
// so that the server's writes to it stall after a few kilobytes
// noReadRcvBuf: the receive buffer of a terminal dialled with noRead (tiny: the server's writes stall soon; a terminal that is
// to read again later takes a buffer of at least one segment, so that its window reopens the ordinary way)
var noReadRcvBuf atomic.Int64

func init() { noReadRcvBuf.Store(2048) }

func (l *live) dialWith(phone []byte, ver int, noRead bool) *term {
	dialMu.Lock()
	defer dialMu.Unlock()
	d := net.Dialer{}
	if noRead {
		d.Control = func(network, address string, rc syscall.RawConn) error {
			return rc.Control(func(fd uintptr) {
				syscall.SetsockoptInt(int(fd), syscall.SOL_SOCKET, syscall.SO_RCVBUF, int(noReadRcvBuf.Load()))
			})
		}
	}
	c, err := d.Dial("tcp", l.addr)
	if err != nil {
		die("dial:", err)
	}
	var idx int
	if l.quiet {
		idx = int(l.quietIdx.Add(1)) - 1 // accept order = dial order (dials are serialised); give the accept a moment
		time.Sleep(2 * time.Millisecond)
	} else {
		select {
		case idx = <-l.newConn:
		case <-time.After(5 * time.Second):
			die("server did not start a connection for the dial")
		}
	}
	t := &term{l: l, idx: idx, conn: c.(*net.TCPConn), phone: phone, ver: ver, recvCh: make(chan []byte, 100000)}
	t.conn.SetNoDelay(true)
	l.rec.log(idx, "D", "reset", "ver", ver, "phone", B(phone), "filter", !l.noFilter)
	if !noRead {
		go t.readLoop()
	}
	return t
}

func (t *term) readLoop() {
	buf := make([]byte, 65536)
	var acc []byte
	for {
		n, err := t.conn.Read(buf)
		if n > 0 {
			acc = append(acc, buf[:n]...)
			for {
				i := bytes.IndexByte(acc, 0x7e)
				if i < 0 {
					break
				}
				j := bytes.IndexByte(acc[i+1:], 0x7e)
				if j < 0 {
					break
				}
				fr := append([]byte{}, acc[i:i+j+2]...)
				acc = acc[i+j+2:]
				t.l.rec.log(t.idx, "D", "recv", "bytes", B(fr))
				select {
				case t.recvCh <- fr:
				default:
				}
				t.nrecv.Add(1) // (counted once it can be taken from recvCh: waitRecv(n) then finds n frames there)
			}
		}
		if err != nil {
			t.l.rec.log(t.idx, "D", "peer_closed")
			return
		}
	}
}

// send writes raw bytes (logged before the write: the stamp precedes anything the server does with them)
func (t *term) send(b []byte) error {
	t.wmu.Lock()
	defer t.wmu.Unlock()
	t.l.rec.log(t.idx, "D", "send", "bytes", B(b))
	_, err := t.conn.Write(b)
	return err
}

func (t *term) nextSerial() int {
	t.smu.Lock()
	defer t.smu.Unlock()
	t.serial = (t.serial + 1) % 65536
	return t.serial
}

func (t *term) frame(id int, body []byte) []byte {
	return buildFrame(hdrSpec{id: id, serial: t.nextSerial(), ver: t.ver, verbyte: 1, phone: t.phone, body: body})
}

func (t *term) close(reset bool) {
	if t.closed.Swap(true) {
		return
	}
	t.l.rec.log(t.idx, "D", "close", "reset", reset)
	if reset {
		t.conn.SetLinger(0)
	}
	t.conn.Close()
}

// waitRecv waits until n frames have been received (or the timeout passes)
func (t *term) waitRecv(n int64, d time.Duration) bool {
	dl := time.Now().Add(d)
	for time.Now().Before(dl) {
		if t.nrecv.Load() >= n {
			return true
		}
		time.Sleep(2 * time.Millisecond)
	}
	return t.nrecv.Load() >= n
}

// ---------------------------------------------------------------- platform-side callers

type cmdResult struct {
	Kind    string
	RespID  int
	Echo    int
	Body    []byte
	Ms      int64
	PlatSeq int
}

func (l *live) sendActive(c, k int, key string, cmd consts.JT808CommandType, body []byte, tmo time.Duration) cmdResult {
	return l.sendActiveAM(c, k, service.NewActiveMessage(key, cmd, body, tmo))
}

// sendActiveAM: the call with a request object the caller supplies (it may have been used for an earlier call)
func (l *live) sendActiveAM(c, k int, am *service.ActiveMessage) cmdResult {
	key, cmd, body, tmo := am.Key, am.Command, am.Body, am.OverTimeDuration
	l.cmds.Store(am, k)
	slack := int(l.slackMs.Load())
	if slack == 0 {
		slack = 1300 // the caller's own deadline (time-out + 1 s) plus scheduling slack: what holds even while the harness parks the writer
	}
	l.rec.log(c, "K", "cmd_call", "k", k, "key", key, "cmd", int(cmd), "body", B(body), "tmo", int(tmo/time.Millisecond), "slack", slack)
	t0 := time.Now()
	// watchdog: a call that has not returned long after its time-out is reported, not waited for
	resCh := make(chan *service.Message, 1)
	go func() { resCh <- l.g.SendActiveMessage(am) }()
	var m *service.Message
	wait := tmo
	if wait <= 0 {
		wait = 3 * time.Second
	}
	select {
	case m = <-resCh:
	case <-time.After(wait + 4*time.Second):
		l.rec.log(c, "K", "cmd_stranded", "k", k, "tmo", int(tmo/time.Millisecond))
		l.rec.log(c, "K", "cmd_ret", "k", k, "kind", "stranded", "respid", 0, "echo", 0, "body", B{}, "ms", int(time.Since(t0).Milliseconds()), "pseq", 0)
		return cmdResult{Kind: "stranded", Ms: time.Since(t0).Milliseconds()}
	}
	ms := time.Since(t0).Milliseconds()
	r := cmdResult{Ms: ms}
	if m == nil {
		r.Kind = "nil"
	} else if m.ExtensionFields.Err != nil {
		r.Kind = errKind(m.ExtensionFields.Err)
		r.PlatSeq = int(m.ExtensionFields.PlatformSeq)
	} else {
		r.Kind = "resp"
		r.PlatSeq = int(m.ExtensionFields.PlatformSeq)
		if m.JTMessage != nil {
			r.RespID = int(m.JTMessage.Header.ID)
			r.Body = append([]byte{}, m.JTMessage.Body...)
			if len(r.Body) >= 2 {
				r.Echo = int(r.Body[0])<<8 | int(r.Body[1])
			}
		}
	}
	l.rec.log(c, "K", "cmd_ret", "k", k, "kind", r.Kind, "respid", r.RespID, "echo", r.Echo, "body", B(r.Body), "ms", int(ms), "pseq", r.PlatSeq)
	return r
}

func (l *live) dump(path string) {
	l.rec.mu.Lock()
	defer l.rec.mu.Unlock()
	if l.rec.file != nil {
		l.rec.file.Sync()
		return
	}
	out := newND(path)
	for _, e := range l.rec.evs {
		out.put(e)
	}
	out.close()
}

var _ = jt808.NewJTMessage
var _ = fmt.Sprint

func service_VerifSetHookNil() { service.VerifSetHook(nil) }
