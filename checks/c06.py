"""C06 Automatic replies: one per request, correlated, ordered, numbered (DESIGN.md section 5, C06)."""
import json, os
import vlib
from checks import live_common as lc

LEVEL = "model_checking"


def check(ctx):
    thorough = ctx.tier == "thorough"
    ctx.build()
    tr = os.path.join(ctx.scratch, "c06_live.ndjson")
    rc, err, events = lc.run_live(ctx, ["live-c06", 24 if thorough else 8, 400 if thorough else 120, tr])
    lc.crash_check(ctx, rc, err, "live-c06")
    for e in events:
        if e["ev"] == "cmd_stranded":
            ctx.violation("caller-stranded", "SendActiveMessage(k=%s) had not returned 4 s after its time-out" % e.get("k"), {"kind": "live", "event": e})
    conns = lc.split_conns(events)
    lc.trace_conn(ctx, conns, "c06")
    # the same with the server option WithHasSubcontract(false): every part of a sub-packaged message is reported, answered
    # and passed to the write callback like a message of its own (Trace_Conn: filt = FALSE)
    tr4 = os.path.join(ctx.scratch, "c06_nofilter.ndjson")
    rc, err, events = lc.run_live(ctx, ["live-c06", 8 if thorough else 4, 200 if thorough else 80, tr4, "nofilter"])
    lc.crash_check(ctx, rc, err, "live-c06-nofilter")
    lc.trace_conn(ctx, lc.split_conns(events), "c06nofilter")
    # the handlers whose reply depends on the body, hammered by all connections at once
    tr3 = os.path.join(ctx.scratch, "c06_burst.ndjson")
    rc, err, events = lc.run_live(ctx, ["live-c06", 16 if thorough else 8, 300 if thorough else 150, tr3, "burst"])
    lc.crash_check(ctx, rc, err, "live-c06-burst")
    lc.trace_conn(ctx, lc.split_conns(events), "c06burst")
    # ... and without any instrumentation (hooks and callback recording serialise the writers): request/reply pairs only
    br = os.path.join(ctx.scratch, "c06_burst_pairs.ndjson")
    r = ctx.vh(["live-c06burst", 32 if thorough else 16, 400 if thorough else 200, br], timeout=600)
    lc.crash_check(ctx, r.returncode, r.stderr, "live-c06burst")
    bev = vlib.read_nd(br, quoted=False)
    from checks.c01 import trace_validate as tv
    tv(ctx, "Trace_Burst", br, bev, "uninstrumented-burst-pairs-validated-by-Trace_Burst", lambda inv, e: inv)
    # numbering across the 16-bit wrap (sampled frames, light trace specification)
    from checks.c01 import trace_validate
    wr = os.path.join(ctx.scratch, "c06_serials.ndjson")
    r = ctx.vh(["live-c06wrap", wr], timeout=600)
    lc.crash_check(ctx, r.returncode, r.stderr, "live-c06wrap")
    wev = vlib.read_nd(wr, quoted=False)
    trace_validate(ctx, "Trace_Serials", wr, wev, "serial-wrap-frames-validated-by-Trace_Serials",
                   lambda inv, e: "%s i=%s" % (inv, "wrap" if e.get("i", 0) > 65000 else "early"))
    if thorough:
        tr2 = os.path.join(ctx.scratch, "c06_wrap.ndjson")
        rc, err, events = lc.run_live(ctx, ["live-c06", 1, 10, tr2, "wrap"], timeout=1500)
        lc.crash_check(ctx, rc, err, "live-c06-wrap")
        lc.trace_conn(ctx, lc.split_conns(events), "c06wrap", timeout=3400)
    ctx.cov["rule"] = ("seeded conversations of N concurrent harness terminals over loopback TCP against a live default-configuration "
                       "server: every default-registered 0x0xxx/0x1xxx id, responses, platform ids, unsupported ids, both header versions, "
                       "serials around 0/65535, the all-zero phone, coalesced and split writes, interleaved sub-packaged messages; every "
                       "event (terminal send/recv, read/write callbacks, writer hook points) is stepped through Trace_Conn.")
    ctx.assumptions += ["0x1003: only existence, type, addressing, order and numbering of the reply are claimed (empty body by design)",
                        "0x0801 shorter than its fixed part and malformed 0x1212 bodies are not generated (reply content not claimed)",
                        "events are ordered by a stamp taken under the recorder's mutex (causal order), never by wall clock"]


def replay(ctx, path):
    r = json.load(open(path))["replay"]
    raise vlib.ToolFailure("live traces are not replayable bit-for-bit; re-run ./check C06 with VERIF_SEED=%s (events kept in the replay file)" % json.load(open(path)).get("seed"))
