INIT Init
NEXT Next
INVARIANTS OwnReply OnePerRequest
CHECK_DEADLOCK FALSE
