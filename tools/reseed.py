#!/usr/bin/env python3
"""tools/reseed.py <Cxx_mN> [check ...]  - re-run checks against a stored seeded change: applies seeded/<name>/patch.diff
(or patch_rebased.diff) to /repo, runs the named checks (default: the change's own property), reverts, updates meta.json."""
import sys, os, json, subprocess
name = sys.argv[1]; checks = sys.argv[2:] or [name.split("_")[0]]
d = os.path.join("/verif/seeded", name)
patch = os.path.join(d, "patch_rebased.diff")
if not os.path.exists(patch):
    patch = os.path.join(d, "patch.diff")
if subprocess.run("git status --porcelain", shell=True, cwd="/repo", capture_output=True, text=True).stdout.strip():
    print("/repo not clean"); sys.exit(2)
if subprocess.run(["git", "apply", patch], cwd="/repo").returncode != 0:
    print("patch does not apply"); sys.exit(2)
det = []
try:
    for c in checks:
        r = subprocess.run(["./check", c], cwd="/verif", capture_output=True, text=True)
        lines = [l for l in (r.stdout + r.stderr).splitlines() if l.startswith(("VIOLATION", "OK ", "KNOWN"))]
        print(c, "exit", r.returncode, (lines or [r.stderr[-300:]])[0][:220])
        if r.returncode == 1:
            det.append(c)
finally:
    subprocess.run("git checkout -- . && git clean -fdq", shell=True, cwd="/repo")
mp = os.path.join(d, "meta.json"); m = json.load(open(mp))
m["detected_by"] = sorted(set(m.get("detected_by", [])) | set(det)) if det else m.get("detected_by", [])
json.dump(m, open(mp, "w"), indent=1, ensure_ascii=False)
print(name, "detected_by", m["detected_by"])
