--------------------------- MODULE Trace_FrameC02 ---------------------------
(* C02, implementation -> specification: verdicts and decoded fields        *)
(* recorded from the real JTMessage.Decode on seeded random valid frames    *)
(* (all byte values, bodies to 1023 bytes, reserved bits, any version byte, *)
(* any package numbers) and their corruptions.                              *)
EXTENDS Frame, TLC, Json, IOUtils

Trace == ndJsonDeserialize(IOEnv.VERIF_TRACE)
VARIABLE l
Init == l = 0
Next == l = 0 /\ l' \in 1..Len(Trace)
E == Trace[l]

InDomain == l > 0 /\ NoInteriorFlag(E.f)
\* accept/reject agrees with the declarative definition of a well-formed frame
VerdictMatches == InDomain => (E.d.ok <=> WellFormed(E.f))
\* the decoded fields are the standard's positional reading
FieldsMatch == InDomain /\ E.d.ok /\ WellFormed(E.f) =>
    LET d == Decode(E.f) IN
    /\ E.d.id = d.id /\ E.d.len = d.len /\ E.d.enc = d.enc /\ E.d.frag = d.frag /\ E.d.ver = d.ver
    /\ E.d.digits = d.digits /\ E.d.serial = d.serial /\ E.d.total = d.total /\ E.d.no = d.no
    /\ E.d.body = d.body
SpecSound == InDomain => Sound(E.f)
=============================================================================
