"""C19 Stored attachments stay inside the terminal's directory (DESIGN.md section 5, C19)."""
import json, os
import vlib
from checks.c01 import run_results, trace_validate

LEVEL = "model_checking"


def check(ctx):
    thorough = ctx.tier == "thorough"
    ctx.build()
    cases = os.path.join(ctx.scratch, "names.ndjson")
    ctx.tlc("MC_Path", constants={"MaxSegs": 4 if thorough else 3}, env={"VERIF_OUT": cases}, workers=4)
    res = os.path.join(ctx.scratch, "names_res.ndjson")
    ctx.vh_ok(["c19-replay", cases, res], timeout=1500)
    run_results(ctx, res, "MC_Path-names-driven-through-a-real-session-in-a-sandbox")
    tr = os.path.join(ctx.scratch, "path_trace.ndjson")
    ctx.vh_ok(["c19-gen", 1500 if thorough else 250, tr], timeout=1500)
    events = vlib.read_nd(tr, quoted=False)

    def sig(inv, e):
        name = bytes(e.get("name", []))
        kind = "dotdot" if b".." in name else ("slash" if b"/" in name else "other")
        return "%s name-kind=%s" % (inv, kind)
    trace_validate(ctx, "Trace_Path", tr, events, "random-names-file-tree-delta-validated-by-Trace_Path", sig)
    # the real server with its own default handler: sessions of several terminals overlapping in time (also with the same file
    # name), and sessions that fail half way with a hostile name; every file found afterwards must lie in the directory of the
    # terminal whose bytes it holds
    import tempfile, shutil
    work = tempfile.mkdtemp(prefix="verif_c19_overlap_")
    ov = os.path.join(ctx.scratch, "overlap.ndjson")
    # the walked root is one level above the server's working directory, so that escapes by one level are seen
    os.makedirs(os.path.join(work, "up1", "up2", "cwd"))
    r = ctx.vh(["live-attach-overlap", os.path.join(work, "up1", "up2", "cwd"), ov], timeout=300, cwd=work)
    if r.returncode != 0:
        shutil.rmtree(work, ignore_errors=True)
        from checks import live_common as lc
        lc.crash_check(ctx, r.returncode, r.stderr, "live-attach-overlap")
    oev = vlib.read_nd(ov, quoted=False) if os.path.exists(ov) else []
    shutil.rmtree(work, ignore_errors=True)
    if len(oev) < 4:
        raise vlib.ToolFailure("live-attach-overlap recorded only %d events" % len(oev))
    trace_validate(ctx, "Trace_Path", ov, oev, "overlapping-sessions-on-the-live-attachment-server", lambda inv, e: "%s overlap owner=%s" % (inv, "known" if bytes(e.get("phone", [])) != b"nobody" else "nobody"))
    ctx.cov["rule"] = ("MC_Path: every name of <= MaxSegs segments over {'..','.','','a','b c'}, rooted and not, plus '../'-repetitions "
                       "up to the 255-byte wire limit; one real session per name with the default handler in a sandbox with decoys; "
                       "the created/modified file set must be confined. Random byte names the other way round.")
    ctx.cov["exhaustive"] = True
    ctx.assumptions += ["POSIX path semantics ('/' separator, '..'); symlink races are not modelled",
                        "sessions run sequentially with the process working directory inside a fresh temporary sandbox"]


def replay(ctx, path):
    r = json.load(open(path))["replay"]
    ctx.build()
    c = r.get("case")
    if c is None:
        e = r["event"]; c = {"name": e["name"], "class": "replay", "up": 0, "path": []}
    f = os.path.join(ctx.scratch, "one.ndjson"); open(f, "w").write(json.dumps(c) + "\n")
    out = os.path.join(ctx.scratch, "one_res.ndjson")
    ctx.vh_ok(["c19-replay", f, out]); run_results(ctx, out, "replay")
