INIT Init
NEXT Next
INVARIANTS Emit
CHECK_DEADLOCK FALSE
