"""C09 Delivered messages are stable (DESIGN.md section 5, C09)."""
import json, os
import vlib
from checks import live_common as lc

LEVEL = "model_checking"


def check(ctx):
    thorough = ctx.tier == "thorough"
    ctx.build()
    tr = os.path.join(ctx.scratch, "c09_live.ndjson")
    rc, err, events = lc.run_live(ctx, ["live-c09", 12 if thorough else 4, 120 if thorough else 40, tr], timeout=1800)
    lc.crash_check(ctx, rc, err, "live-c09")
    for e in events:
        if e["ev"] == "cmd_stranded":
            ctx.violation("caller-stranded", "SendActiveMessage(k=%s) had not returned 4 s after its time-out" % e.get("k"), {"kind": "live", "event": e})
    conns = lc.split_conns(events)
    lc.trace_conn(ctx, conns, "c09")
    # the same with WithHasSubcontract(false): every part of a transfer is handed out as a message of its own and stays what it was
    # when the transfer completes
    tr2 = os.path.join(ctx.scratch, "c09_live_nofilter.ndjson")
    rc, err, ev2 = lc.run_live(ctx, ["live-c09", 6 if thorough else 3, 60 if thorough else 30, tr2, "nofilter"], timeout=1800)
    lc.crash_check(ctx, rc, err, "live-c09 nofilter")
    lc.trace_conn(ctx, lc.split_conns(ev2), "c09_nofilter")
    nre = sum(1 for e in events if e["ev"] == "recheck")
    if nre == 0:
        raise vlib.ToolFailure("no recheck events recorded")
    ctx.cov["rechecks"] = nre
    ctx.cov["rule"] = ("every *Message handed to OnReadExecutionEvent is retained with a snapshot (body, raw frame, id, phone, serial, package numbers) "
                       "and re-read during later traffic and after the connection closed; the writer is held at the hook before ReplyBody until the reader "
                       "has completed 1-3 further reads; frames are sent one per read (fast path), two per read (buffered path), as separate sub-package "
                       "reads and with a lone leading delimiter (shifted read); replies, the reassembled body and a final platform command are checked "
                       "against the message/session they belong to by Trace_Conn (FrameBytes, ReadCbMatch, Recheck).")
    ctx.assumptions += ["holding the writer is cooperative (30 ms bound); schedules that could not be forced are still validated as they happened"]


def replay(ctx, path):
    raise vlib.ToolFailure("live scenarios are re-run, not replayed: ./check C09")
