------------------------------ MODULE Trace_Burst ------------------------------
(* C06 under contention: many connections fire requests whose reply depends on *)
(* the request's own body (0x0102 authentication result, 0x0801 multimedia id, *)
(* 0x1212 file name) at full speed, with no instrumentation serialising the    *)
(* writer goroutines.  On every connection the i-th frame received must be the *)
(* specification's reply to the i-th request, numbered i-1.                    *)
EXTENDS Replies, TLC, Json, IOUtils
Trace == ndJsonDeserialize(IOEnv.VERIF_TRACE)
VARIABLE l
Init == l = 0
Next == l = 0 /\ l' \in 1..Len(Trace)
E == Trace[l]
OwnReply == l = 0 \/ (LET m == Decode(E.sent) IN m.ok /\ ReplyFor(m).has /\ Mat(E.recv) = Mat(ReplyFrame(m, (E.i - 1) % 65536)))
OnePerRequest == l = 0 \/ E.nrecv = E.nsent
=============================================================================
