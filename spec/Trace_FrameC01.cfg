INIT Init
NEXT Next
INVARIANTS SrcDecodes OutMatches DecMatches RoundTripObserved TransparentObserved
CHECK_DEADLOCK FALSE
