INIT Init
NEXT Next
INVARIANTS AllConfined PlainStored
CHECK_DEADLOCK FALSE
