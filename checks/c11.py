"""C11 Session registry: at most one live connection per terminal key (DESIGN.md section 5, C11)."""
import json, os
import vlib
from checks import live_common as lc

LEVEL = "model_checking"


def registry_run(ctx, args, name):
    """one live run of the registry driver, validated by Trace_Registry"""
    tr = os.path.join(ctx.scratch, "c11_live_%s.ndjson" % name)
    rc, err, events = lc.run_live(ctx, args[:3] + [tr] + args[3:], timeout=1800)
    lc.crash_check(ctx, rc, err, "live-c11")
    for e in events:
        if e["ev"] == "cmd_stranded":
            ctx.violation("caller-stranded", "SendActiveMessage(k=%s) had not returned 4 s after its time-out" % e.get("k"), {"kind": "live", "event": e})
    events.sort(key=lambda e: e["g"])
    tr2 = os.path.join(ctx.scratch, "c11_trace_%s.ndjson" % name)
    with open(tr2, "w") as f:
        for e in events:
            f.write(json.dumps(e) + "\n")
    verdict = os.path.join(ctx.scratch, "c11_verdict_%s.json" % name)
    res = ctx.tlc("Trace_Registry", env={"VERIF_TRACE": tr2, "VERIF_OUT": verdict}, workers=1, timeout=2400, name="Trace_Registry_" + name)
    if res["distinct"] != len(events) + 1 or not os.path.exists(verdict):
        raise vlib.ToolFailure("Trace_Registry consumed %d of %d events:\n%s" % (res["distinct"] - 1, len(events), res["out"][-2000:]))
    v = vlib.read_nd(verdict)[-1]
    for b in v["bad"]:
        e = events[b["l"] - 1]
        ctx.violation("%s ev=%s" % (b["what"], e["ev"]), "event %s rejected by Trace_Registry!%s" % (json.dumps(e)[:300], b["what"]),
                      {"kind": "registry-trace", "what": b["what"], "events": events[max(0, b["l"] - 40):b["l"] + 2]})
    for c in v.get("unannounced", []):
        ctx.violation("join-decision-never-announced-to-the-join-callback", "connection %s joined (or was refused) in the registry but OnJoinEvent never came" % c,
                      {"kind": "registry-trace", "events": [e for e in events if e.get("c") == c or e.get("conn") == c][:40]})
    for c in v.get("unleft", []):
        ctx.violation("joined-connection-ended-without-leave-callback", "connection %s joined but OnLeaveEvent never came" % c,
                      {"kind": "registry-trace", "events": [e for e in events if e.get("c") == c or e.get("conn") == c][:40]})
    if v["online"] != 0:
        ctx.violation("key-still-registered-after-all-connections-ended", "%d keys online at the end" % v["online"], {"kind": "registry-trace"})
    for e in events:
        if e["ev"] == "assert" and not e["ok"]:
            ctx.violation("%s" % e["what"], "live-c11: %s" % json.dumps(e)[:400], {"kind": "registry-trace", "event": e})
        if e["ev"] == "rejoin" and not e["ok"]:
            ctx.violation("key-not-free-after-disconnect", "key %s could not be taken by a new connection" % e["key"], {"kind": "registry-trace"})
    return events


def check(ctx):
    thorough = ctx.tier == "thorough"
    ctx.build()
    ctx.tlc("MC_Registry", workers=12)
    if thorough:
        ctx.tlc("MC_Registry", constants={"Conns": "{1, 2, 3, 4}", "Callers": "{1, 2, 3}", "CapOp": 3}, workers=12, name="MC_Registry_big")
    events = registry_run(ctx, ["live-c11", 16 if thorough else 6, 60 if thorough else 20], "default")
    # the same with a custom key function (WithKeyFunc): keys are not phone numbers, one of them is the empty string
    registry_run(ctx, ["live-c11", 6, 30 if thorough else 12, "keyfunc"], "keyfunc")
    nj = sum(1 for e in events if e["ev"] == "M.join.ok"); nr = sum(1 for e in events if e["ev"] == "M.join.refused")
    nroute = sum(1 for e in events if e["ev"] == "M.route.before"); nne = sum(1 for e in events if e["ev"] == "M.route.notexist")
    if (nr == 0 or nroute == 0 or nne == 0) and not ctx.viol:     # (a server that lets nobody join has been reported above)
        raise vlib.ToolFailure("driver did not exercise refusals/routes/not-exist: %s" % [nj, nr, nroute, nne])
    ctx.note_impl("registry-history-validated-by-Trace_Registry", 1, distinct=nj + nr + nroute + nne, events=len(events), joins=nj, refused=nr, routed=nroute, notexist=nne)
    ctx.sample({"from": "manager-log", "events": [[e["ev"], e.get("key"), e.get("conn"), e.get("k")] for e in events if e["p"] == "M"][:16]})
    ctx.cov["rule"] = ("MC_Registry: all interleavings of 4 connections over 2 keys (3 presenting the same key: duplicates and reconnects), 2-3 callers "
                       "and the manager; AtMostOne, RegistryExact, RefuseKeepsFirst, LeaveFreesOwn, RouteToOwner, Callbacks, KeyFreed. Live: 6 connection "
                       "workers and 4 callers over a few keys (duplicate-key connects, immediate reconnects, resets, silent connections, part-first and "
                       "unsupported-first messages); the manager's own log is the backbone of the trace validated by Trace_Registry.")
    ctx.assumptions += ["the manager goroutine's hook points are the linearization points of join/leave/route",
                        "default key function (the phone number)"]


def replay(ctx, path):
    raise vlib.ToolFailure("live scenarios are re-run, not replayed: ./check C11")
