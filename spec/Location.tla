------------------------------ MODULE Location ------------------------------
(* JT/T 808 location report (message 0x0200), transcribed from the standard's *)
(* tables, independently of the code:                                         *)
(*   table 23  basic block: alarm(4) status(4) lat(4) lon(4) alt(2) speed(2)  *)
(*             direction(2) time(BCD 6) = 28 bytes                            *)
(*   table 24  alarm flag bits 0..31,  table 25  status bits                  *)
(*   tables 26-32  additional information items  id(1) len(1) content         *)
(* Words wider than 31 bits are byte tuples; bit i of a big-endian tuple is   *)
(* Bytes!BitOf.  Flag tables map the implementation's exported field names to *)
(* the standard's bit numbers (the names are the binding; the numbers are the *)
(* standard's).                                                               *)
EXTENDS Bytes, TLC

AlarmBits == [EmergencyAlarm |-> 0, OverSpeed |-> 1, FatigueDriving |-> 2, DangerousAlarm |-> 3, GNSSModuleFault |-> 4,
              GNSSAntennaFault |-> 5, GNSSAntennaShortCircuit |-> 6, TerminalPowerSupply |-> 7, TerminalPowerSupplyShutdown |-> 8,
              TerminalLCDFault |-> 9, TTSModuleFault |-> 10, CameraFault |-> 11, ICCardModuleFault |-> 12, OverSpeedAlarm |-> 13,
              FatigueDrivingAlarm |-> 14, ViolationDrivingAlarm |-> 15, TirePressureAlarm |-> 16, RightTurnBlindAreaAlarm |-> 17,
              DrivingTimeout |-> 18, OverTimeStop |-> 19, InOutArea |-> 20, InOutLine |-> 21, SectionDrivingTime |-> 22,
              LineDeviation |-> 23, VSSFault |-> 24, OilLevelAbnormality |-> 25, StealCar |-> 26, LaneDeviation |-> 27,
              LaneOffset |-> 28, CollisionAlarm |-> 29, SideSlipAlarm |-> 30, LaneOpeningAlarm |-> 31]
\* single-bit status flags (bits 8-9, the two-bit load field, are not claimed by the property)
StatusBits == [ACC |-> 0, Location |-> 1, South |-> 2, East |-> 3, Suspended |-> 4, Encryption |-> 5, EmergencyBrake |-> 6,
               LaneOffset |-> 7, Oil |-> 10, Electricity |-> 11, VehicleDoor |-> 12, FrontDoor |-> 13, MiddleDoor |-> 14,
               BackDoor |-> 15, DriverDoor |-> 16, CustomDoor |-> 17, UseGPS |-> 18, UseBD |-> 19, UseGLONASS |-> 20,
               UseGalileo |-> 21, VehicleRunning |-> 22]
\* item 0x25, extended vehicle signal status; item 0x2A, IO status
ExtVehicleBits == [LowBeamSignal |-> 0, HighBeamSignal |-> 1, RightTurnSignal |-> 2, LeftTurnSignal |-> 3, BrakeSignal |-> 4,
                   ReverseGearSignal |-> 5, FogLightSignal |-> 6, ClearanceLights |-> 7, HornSignal |-> 8, AirConditionerSignal |-> 9,
                   NeutralSignal |-> 10, RetarderWork |-> 11, ABSWork |-> 12, HeaterWork |-> 13, ClutchStatus |-> 14]
IOBits == [DeepSleepStatus |-> 0, SleepStatus |-> 1]

FlagsOf(table, word) == {n \in DOMAIN table : BitOf(word, table[n]) = 1}
Injective(table) == \A a, b \in DOMAIN table : a # b => table[a] # table[b]

\* the basic block
Base(b) == [alarm |-> Sub(b, 1, 4), status |-> Sub(b, 5, 8), lat |-> Sub(b, 9, 12), lon |-> Sub(b, 13, 16),
            alt |-> Sub(b, 17, 18), speed |-> Sub(b, 19, 20), dir |-> Sub(b, 21, 22), time |-> Sub(b, 23, 28),
            alarms |-> FlagsOf(AlarmBits, Sub(b, 1, 4)), statuses |-> FlagsOf(StatusBits, Sub(b, 5, 8))]

\* admissible content lengths per standard item id; ids not listed are unknown (any length, kept verbatim)
Admissible == [i \in {1, 2, 3, 4, 5, 6, 17, 18, 19, 37, 42, 43, 48, 49} |->
                 CASE i \in {1, 37, 43} -> {4}        \* 01 mileage, 25 extended vehicle signals, 2B analog
                   [] i \in {2, 3, 4, 6, 42} -> {2}   \* 02 fuel, 03 recorder speed, 04 alarm event id, 06 temperature, 2A IO
                   [] i = 5 -> {30}                   \* 05 tyre pressures
                   [] i = 17 -> {1, 5}                \* 11 over-speed alarm
                   [] i = 18 -> {6}                   \* 12 area / route alarm
                   [] i = 19 -> {7}                   \* 13 route driving time
                   [] OTHER -> {1}]                   \* 30 signal strength, 31 satellites
LenOk(id, n) == id \notin DOMAIN Admissible \/ n \in Admissible[id]

\* the value the standard assigns to an item's bytes (named as the implementation names its fields)
Value(id, c) ==
    CASE id = 1 -> [Mile |-> c] [] id = 2 -> [Oil |-> c] [] id = 3 -> [Speed |-> c] [] id = 4 -> [ManualAlarm |-> c]
      [] id = 5 -> [Tire |-> c] [] id = 6 -> [CarTemperature |-> c]
      [] id = 17 -> [OverSpeedType |-> c[1], OverSpeedAreaID |-> IF Len(c) = 5 /\ c[1] # 0 THEN Sub(c, 2, 5) ELSE <<0, 0, 0, 0>>]
      [] id = 18 -> [AreaType |-> c[1], AreaID |-> Sub(c, 2, 5), AreaDirection |-> c[6]]
      [] id = 19 -> [RoadID |-> Sub(c, 1, 4), RoadSeconds |-> Sub(c, 5, 6), RoadResult |-> c[7]]
      [] id = 37 -> [ExtValue |-> c, ExtFlags |-> FlagsOf(ExtVehicleBits, c)]
      [] id = 42 -> [IOValue |-> c, IOFlags |-> FlagsOf(IOBits, c)]
      [] id = 43 -> [Analog |-> c] [] id = 48 -> [WIFISignalStrength |-> c[1]] [] id = 49 -> [GNSSPositionNum |-> c[1]]
      [] OTHER -> [Unknown |-> TRUE]

\* walk the items; a later item with the same id replaces an earlier one
RECURSIVE Items(_, _, _)
Items(b, i, acc) ==      \* i = bytes consumed
    IF i = Len(b) THEN [ok |-> TRUE, items |-> acc]
    ELSE IF i + 2 > Len(b) THEN [ok |-> FALSE, items |-> <<>>]
    ELSE LET id == b[i + 1] n == b[i + 2] IN
         IF ~LenOk(id, n) \/ i + 2 + n > Len(b) THEN [ok |-> FALSE, items |-> <<>>]
         ELSE LET c == Sub(b, i + 3, i + 2 + n)
                  it == [id |-> id, len |-> n, data |-> c, v |-> Value(id, c)]
              IN Items(b, i + 2 + n, [x \in DOMAIN acc \cup {id} |-> IF x = id THEN it ELSE acc[x]])

\* a 0x0200 body
Report(body) == IF Len(body) < 28 THEN [ok |-> FALSE]
                ELSE LET it == Items(Drop(body, 28), 0, <<>>) IN
                     IF ~it.ok THEN [ok |-> FALSE] ELSE [ok |-> TRUE, base |-> Base(body), items |-> it.items]
=============================================================================
