------------------------------- MODULE Frame -------------------------------
(* JT/T 808 frame layer: delimiters, escaping, checksum, 2013/2019 header,  *)
(* sub-package fields.  Pure operators; every other module builds on these. *)
(*                                                                          *)
(*   wire   = 7E . Escape(payload) . 7E                                     *)
(*   payload= header . body . XorAll(header . body)                         *)
(*   header = id(2) prop(2) [ver(1)] phone(6|10) serial(2) [total(2) no(2)] *)
(*   prop   = bit15 rsv | bit14 ver2019 | bit13 frag | bits12..10 enc | len *)
EXTENDS Bytes

FLAG == 126   \* 0x7E
ESC  == 125   \* 0x7D

\* linear-time formulations (a fold of \o is quadratic in TLC): build 2 slots per byte, drop the unused (-1)
Keep(m) == SelectSeq(m, LAMBDA v : v # -1)
Escape(p) == Keep([i \in 1..(2 * Len(p)) |->
                 LET b == p[(i + 1) \div 2] IN
                 IF i % 2 = 1 THEN (IF b = FLAG \/ b = ESC THEN ESC ELSE b)
                 ELSE (IF b = FLAG THEN 2 ELSE IF b = ESC THEN 1 ELSE -1)])

Framed(p) == <<FLAG>> \o Escape(p) \o <<FLAG>>
\* the one tolerated deviation: checksum byte 7D sent unescaped
FramedRaw7D(p) == IF Len(p) > 0 /\ p[Len(p)] = ESC
                  THEN <<FLAG>> \o Escape(Sub(p, 1, Len(p) - 1)) \o <<ESC, FLAG>>
                  ELSE Framed(p)

---------------------------------------------------------------------------
(* Operational unescape, as a strict recogniser (what a decoder must do).  *)
\* (written without recursion so that 1 KB frames need no deep stack: in a valid
\* string every 7D is the first byte of a pair, or the raw last interior byte)
UnescOk(f) == \A i \in 2..Len(f) - 2 : f[i] = ESC => f[i + 1] \in {1, 2}
UnescVal(f) == Keep([i \in 1..Len(f) |->
                 IF i = 1 \/ i = Len(f) THEN -1
                 ELSE IF f[i] = ESC THEN (IF i = Len(f) - 1 THEN ESC ELSE -1)   \* raw 7D checksum
                 ELSE IF i > 2 /\ f[i - 1] = ESC THEN (IF f[i] = 1 THEN ESC ELSE FLAG)
                 ELSE f[i]])
UnescFrom(f, i, acc) == IF UnescOk(f) THEN [ok |-> TRUE, v |-> UnescVal(f)] ELSE [ok |-> FALSE, v |-> <<>>]

Unescape(f) == IF Len(f) > 2 /\ f[1] = FLAG /\ f[Len(f)] = FLAG
               THEN UnescFrom(f, 2, <<>>) ELSE [ok |-> FALSE, v |-> <<>>]

---------------------------------------------------------------------------
(* Header                                                                   *)
PropWord(rsv15, ver, frag, enc3, len) ==
    U16(rsv15 * 32768 + ver * 16384 + frag * 8192 + enc3 * 1024 + len)

\* x : [id, rsv15, ver, frag, enc3, verbyte, phone (raw BCD bytes), serial, total, no, body]
HeaderBytes(x, len) ==
    U16(x.id) \o PropWord(x.rsv15, x.ver, x.frag, x.enc3, len)
    \o (IF x.ver = 1 THEN <<x.verbyte>> ELSE <<>>)
    \o x.phone \o U16(x.serial)
    \o (IF x.frag = 1 THEN U16(x.total) \o U16(x.no) ELSE <<>>)

Payload(x) == LET hb == HeaderBytes(x, Len(x.body)) \o x.body IN Append(hb, XorAll(hb))

HeaderLen(ver, frag) == (IF ver = 1 THEN 17 ELSE 12) + (IF frag = 1 THEN 4 ELSE 0)

Err == [ok |-> FALSE]

\* Operational decode: the checks in the order a decoder performs them.
Decode(f) ==
    LET u == Unescape(f) IN
    IF ~u.ok THEN Err ELSE
    LET p == u.v IN
    IF XorAll(p) # 0 THEN Err ELSE
    IF Len(p) < 4 THEN Err ELSE
    LET attr == BE16(p[3], p[4])
        ver  == (attr \div 16384) % 2
        frag == (attr \div 8192) % 2
        len  == attr % 1024
        H    == HeaderLen(ver, frag)
        o    == IF ver = 1 THEN 5 ELSE 4          \* bytes before the phone
        pl   == IF ver = 1 THEN 10 ELSE 6
    IN IF Len(p) < H THEN Err ELSE
       IF H + len + 1 # Len(p) THEN Err ELSE
       [ok |-> TRUE, id |-> BE16(p[1], p[2]), len |-> len,
        rsv15 |-> attr \div 32768, enc3 |-> (attr \div 1024) % 8, enc |-> (attr \div 1024) % 2,
        frag |-> frag, ver |-> ver, verbyte |-> IF ver = 1 THEN p[5] ELSE 0,
        phone |-> Sub(p, o + 1, o + pl), digits |-> PhoneDigits(Sub(p, o + 1, o + pl)),
        serial |-> BE16(p[o + pl + 1], p[o + pl + 2]),
        total |-> IF frag = 1 THEN BE16(p[o + pl + 3], p[o + pl + 4]) ELSE 0,
        no |-> IF frag = 1 THEN BE16(p[o + pl + 5], p[o + pl + 6]) ELSE 0,
        body |-> Sub(p, H + 1, H + len)]

---------------------------------------------------------------------------
(* Declarative well-formedness in canonical form: read the fields by        *)
(* position with no validation at all, re-frame them with the ENCODER side  *)
(* (Escape/Payload/Framed) and compare with the input.  Shares no check     *)
(* with Decode; TLC checks the two agree (MC_Frame: Sound).                 *)
IsPairStart(w, i) == w[i] = ESC /\ i < Len(w) /\ w[i + 1] \in {1, 2}
Lenient(w) == Keep([i \in 1..Len(w) |->
                 IF IsPairStart(w, i) THEN -1
                 ELSE IF i > 1 /\ IsPairStart(w, i - 1) THEN (IF w[i] = 1 THEN ESC ELSE FLAG)
                 ELSE w[i]])

ReadFields(p) ==
    IF Len(p) < 4 THEN [readable |-> FALSE] ELSE
    LET attr == BE16(p[3], p[4])
        ver  == (attr \div 16384) % 2
        frag == (attr \div 8192) % 2
        H    == HeaderLen(ver, frag)
        o    == IF ver = 1 THEN 5 ELSE 4
        pl   == IF ver = 1 THEN 10 ELSE 6
    IN IF Len(p) < H + 1 THEN [readable |-> FALSE] ELSE
       [readable |-> TRUE, id |-> BE16(p[1], p[2]), declared |-> attr % 1024,
        rsv15 |-> attr \div 32768, enc3 |-> (attr \div 1024) % 8, frag |-> frag, ver |-> ver,
        verbyte |-> IF ver = 1 THEN p[5] ELSE 0,
        phone |-> Sub(p, o + 1, o + pl),
        serial |-> BE16(p[o + pl + 1], p[o + pl + 2]),
        total |-> IF frag = 1 THEN BE16(p[o + pl + 3], p[o + pl + 4]) ELSE 0,
        no |-> IF frag = 1 THEN BE16(p[o + pl + 5], p[o + pl + 6]) ELSE 0,
        body |-> Sub(p, H + 1, Len(p) - 1)]

WellFormed(f) ==
    /\ Len(f) > 2 /\ f[1] = FLAG /\ f[Len(f)] = FLAG
    /\ LET p == Lenient(Sub(f, 2, Len(f) - 1))
           x == ReadFields(p)
       IN /\ x.readable
          /\ Len(x.body) < 1024
          /\ p = Payload(x)
          /\ f \in {Framed(p), FramedRaw7D(p)}

\* C02: the validator is sound and complete, and the fields are the positional ones
Sound(f) ==
    LET d == Decode(f) IN
    /\ d.ok <=> WellFormed(f)
    /\ d.ok => LET x == ReadFields(Lenient(Sub(f, 2, Len(f) - 1))) IN
               /\ d.id = x.id /\ d.len = Len(x.body) /\ d.frag = x.frag /\ d.ver = x.ver
               /\ d.enc = x.enc3 % 2 /\ d.phone = x.phone /\ d.serial = x.serial
               /\ d.total = x.total /\ d.no = x.no /\ d.body = x.body

NoInteriorFlag(f) == \A i \in 2..Len(f) - 1 : f[i] # FLAG

---------------------------------------------------------------------------
(* Encoding a reply/command from a header obtained by decoding a terminal   *)
(* frame.  The encoder never writes sub-package fields, so the fragment bit *)
(* of the result is 0; reserved bit 15 and encryption bits 11..12 are not   *)
(* carried over (bit 10 is).                                                *)
EncodeReply(src, id, pser, body) ==
    Framed(Payload([id |-> id, rsv15 |-> 0, ver |-> src.ver, frag |-> 0, enc3 |-> src.enc,
                    verbyte |-> 1, phone |-> src.phone, serial |-> pser,
                    total |-> 0, no |-> 0, body |-> body]))

\* a terminal frame (what terminals send; used by generators and other modules)
TerminalFrame(x) == Framed(Payload(x))

\* C01
Transparent(f) == Len(f) >= 2 /\ f[1] = FLAG /\ f[Len(f)] = FLAG /\ NoInteriorFlag(f)
RoundTrip(src, id, pser, body) ==
    LET out == EncodeReply(src, id, pser, body)
        d   == Decode(out)
    IN /\ Transparent(out)
       /\ d.ok /\ d.id = id /\ d.phone = src.phone /\ d.ver = src.ver
       /\ d.serial = pser /\ d.body = body /\ d.enc = src.enc
=============================================================================
