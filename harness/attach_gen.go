package main

// Seeded random attachment sessions run on the real connection loop; recorded per Read for
// validation by spec/Trace_Attach.tla (I->S direction of C15, C16 and the attachment side of C10).

import (
	"bytes"
	"encoding/binary"
	"errors"
	"fmt"
	"math/rand"
	"os"
)

var aDialects = []string{"JS", "HLJ", "GD", "HN", "SC"}

func idLen(d string) int { return map[string]int{"JS": 7, "HLJ": 0, "GD": 30, "HN": 7, "SC": 30}[d] }
func sigLen(d string) int {
	return map[string]int{"JS": 16, "HLJ": 38, "GD": 40, "HN": 32, "SC": 39}[d]
}

type aFile struct {
	name    []byte
	content []byte
}

func chunkBytes(d string, name []byte, off int, data []byte) []byte {
	b := []byte{0x30, 0x31, 0x63, 0x64}
	if d == "HLJ" {
		b = append(b, byte(len(name)))
		b = append(b, name...)
	} else {
		f := make([]byte, 50)
		copy(f, name)
		b = append(b, f...)
	}
	b = binary.BigEndian.AppendUint32(b, uint32(off))
	b = binary.BigEndian.AppendUint32(b, uint32(len(data)))
	return append(b, data...)
}

func body1210(d string, r *rand.Rand, files []aFile) []byte {
	b := make([]byte, idLen(d)+sigLen(d))
	for i := range b { // ids and the BCD time may be anything
		b[i] = byte(r.Intn(256))
	}
	alarm := make([]byte, 32)
	copy(alarm, "A01cdB") // the marker inside the alarm id
	if r.Intn(2) == 0 {
		r.Read(alarm)
	}
	b = append(b, alarm...)
	b = append(b, byte(r.Intn(2)), byte(len(files)))
	for _, f := range files {
		b = append(b, byte(len(f.name)))
		b = append(b, f.name...)
		b = binary.BigEndian.AppendUint32(b, uint32(len(f.content)))
	}
	return b
}

func body1211(name []byte, ftype byte, size int) []byte {
	b := append([]byte{byte(len(name))}, name...)
	b = append(b, ftype)
	return binary.BigEndian.AppendUint32(b, uint32(size))
}

// longName: a name at the limits of its field - the 50-byte fixed field of the chunk header, or the one-byte
// length of the HLJ dialect (lengths around 242/243, where header arithmetic in a byte would wrap)
func longName(r *rand.Rand, d string, k int) []byte {
	n := 50
	if d == "HLJ" {
		n = []int{50, 200, 241, 242, 243, 244, 250, 255}[r.Intn(8)]
	}
	b := make([]byte, n)
	for i := range b {
		b[i] = byte('a' + (i+k)%26)
	}
	b[0] = byte('0' + k)
	return b
}

func randName(r *rand.Rand, k int) []byte {
	base := [][]byte{[]byte("00_64_6401_0_a.jpg"), []byte("01cd.bin"), []byte("x01cdy"), []byte("v.mp4"), {0x7e, 'n', 0x7d}}
	n := append([]byte{}, base[r.Intn(len(base))]...)
	n = append(n, byte('0'+k))
	if r.Intn(4) == 0 {
		extra := make([]byte, 1+r.Intn(20))
		for i := range extra {
			extra[i] = byte(1 + r.Intn(255)) // no NUL: fixed-width fields trim NULs
		}
		n = append(n, extra...)
	}
	return n
}

type aEvent struct {
	Ev      string `json:"ev"`
	Sess    int    `json:"sess"`
	Dialect string `json:"dialect,omitempty"`
	Bytes   B      `json:"bytes"`
	Obs     []AObs `json:"obs"`
	Quit    string `json:"quit,omitempty"`
	Reset   bool   `json:"reset"`
	Class   string `json:"class,omitempty"`
	Detail  string `json:"detail,omitempty"`
}

// randSession builds the unit list of one upload conversation; hostile>0 injects a fault
func randSession(r *rand.Rand, d string, hostile int) (units [][]byte, class string) {
	ver := r.Intn(2)
	phone := randPhone(r, ver)
	ser := r.Intn(65536)
	constSerial := r.Intn(6) == 0 // a terminal that does not advance its serial number: every control frame is still a frame of its own
	ctl := func(id int, body []byte) []byte {
		if !constSerial {
			ser = (ser + 1) % 65536
		}
		return buildFrame(hdrSpec{id: id, serial: ser, ver: ver, verbyte: 1, phone: phone, body: body})
	}
	nf := 1 + r.Intn(3)
	files := make([]aFile, nf)
	for i := range files {
		sz := []int{1, 2, 1 + r.Intn(30), 1 + r.Intn(300)}[r.Intn(4)]
		c := make([]byte, sz)
		r.Read(c)
		if sz > 8 && r.Intn(3) == 0 {
			copy(c[r.Intn(sz-4):], []byte{0x30, 0x31, 0x63, 0x64})
		}
		files[i] = aFile{randName(r, i), c}
		if r.Intn(5) == 0 {
			files[i].name = longName(r, d, i)
		}
	}
	class = "plain"
	// the files may be announced by two 0x1210 messages on the same connection: the second adds to what the first announced
	two := nf >= 2 && hostile == 0 && r.Intn(3) == 0
	if two {
		units = append(units, ctl(0x1210, body1210(d, r, files[:1])))
	} else {
		units = append(units, ctl(0x1210, body1210(d, r, files)))
	}
	type piece struct{ f, off, n int }
	var pieces []piece
	for i, f := range files {
		units = append(units, ctl(0x1211, body1211(f.name, byte(r.Intn(5)), len(f.content))))
		if two && i == 0 {
			units = append(units, ctl(0x1210, body1210(d, r, files[1:])))
		}
		maxc := []int{1 + len(f.content)/6, 3 + len(f.content)/4, 64, 400}[r.Intn(4)]
		for off := 0; off < len(f.content); {
			n := 1 + r.Intn(maxc)
			if off+n > len(f.content) {
				n = len(f.content) - off
			}
			pieces = append(pieces, piece{i, off, n})
			off += n
		}
	}
	// a terminal may re-split on a resend: a piece [off, off+n) that was sent is sent again as the longer piece [off, off+n+m) and
	// the piece [off+n, off+n+m) is never sent on its own (the later chunk replaces the earlier one at that offset)
	resplit := hostile == 0 && r.Intn(4) == 0
	var first, merged piece
	if resplit {
		resplit = false
		for k := 0; k+1 < len(pieces); k++ {
			if a, b := pieces[k], pieces[k+1]; a.f == b.f && a.off+a.n == b.off {
				first, merged = a, piece{a.f, a.off, a.n + b.n}
				pieces[k+1] = merged
				resplit = true
				break
			}
		}
	}
	r.Shuffle(len(pieces), func(a, b int) { pieces[a], pieces[b] = pieces[b], pieces[a] })
	if resplit { // mostly in the order that ends well: the short piece first, the longer one later
		ia, ib := -1, -1
		for k, p := range pieces {
			if p == first {
				ia = k
			} else if p == merged {
				ib = k
			}
		}
		if ia > ib && ia >= 0 && ib >= 0 && r.Intn(4) != 0 {
			pieces[ia], pieces[ib] = pieces[ib], pieces[ia]
		}
	}
	// hold some pieces back so that an early 0x1212 reports gaps, then resupply
	hold := 0
	if r.Intn(2) == 0 && len(pieces) > 1 {
		hold = 1 + r.Intn(len(pieces)/2+1)
		class = "gaps"
	}
	send := func(p piece) {
		units = append(units, chunkBytes(d, files[p.f].name, p.off, files[p.f].content[p.off:p.off+p.n]))
	}
	dup := false
	for k, p := range pieces[:len(pieces)-hold] {
		send(p)
		if r.Intn(6) == 0 { // exact resend of an earlier piece
			send(pieces[r.Intn(k+1)])
			dup = true
		}
	}
	if dup {
		class += "+dup"
	}
	// the size field of 0x1212 is the terminal's to fill: the announced size, nothing, half of it, or nonsense. What is
	// missing is decided by the size announced in 0x1210
	size1212 := func(f aFile) int {
		return []int{len(f.content), len(f.content), 0, len(f.content) / 2, 1<<32 - 1, len(f.content) + 1}[r.Intn(6)]
	}
	if hold > 0 {
		for _, f := range files {
			units = append(units, ctl(0x1212, body1211(f.name, 0, size1212(f))))
		}
		for _, p := range pieces[len(pieces)-hold:] {
			send(p)
		}
	}
	for _, f := range files {
		units = append(units, ctl(0x1212, body1211(f.name, 0, size1212(f))))
	}
	switch hostile {
	case 1: // garbage in the middle
		k := 1 + r.Intn(len(units))
		g := make([]byte, 10+r.Intn(30))
		r.Read(g)
		g[0] = byte(r.Intn(0x30)) // neither a frame nor a chunk
		units = append(units[:k:k], append([][]byte{g}, units[k:]...)...)
		class = "garbage"
	case 2: // chunk for a file that was never announced
		k := 1 + r.Intn(len(units))
		units = append(units[:k:k], append([][]byte{chunkBytes(d, []byte("nobody"), 0, []byte{1, 2, 3})}, units[k:]...)...)
		class = "unknown-file-chunk"
	case 3: // unsupported command
		k := r.Intn(len(units) + 1)
		units = append(units[:k:k], append([][]byte{ctl(0x0002, nil)}, units[k:]...)...)
		class = "unknown-command"
	case 4: // 0x1210 whose count exceeds its items / names overrun the body
		b := body1210(d, r, files)
		switch r.Intn(3) {
		case 0:
			b[idLen(d)+sigLen(d)+33] = byte(nf + 1 + r.Intn(3))
		case 1:
			b = b[:len(b)-1-r.Intn(4)]
		default:
			b[idLen(d)+sigLen(d)+34] = 255
		}
		units[0] = ctl(0x1210, b)
		class = "bad-1210"
	case 5: // 0x1211 / 0x1212 with inconsistent name length
		b := body1211(files[0].name, 0, 5)
		b[0] = byte(int(b[0]) + 1 + r.Intn(3))
		k := 1 + r.Intn(len(units))
		units = append(units[:k:k], append([][]byte{ctl([]int{0x1211, 0x1212}[r.Intn(2)], b)}, units[k:]...)...)
		class = "bad-1211"
	case 6: // corrupted control frame (checksum)
		k := 0
		for try := 0; try < 20; try++ {
			k = r.Intn(len(units))
			if units[k][0] == 0x7e {
				break
			}
		}
		if units[k][0] == 0x7e {
			u := append([]byte{}, units[k]...)
			u[len(u)-2] ^= 0x10
			if u[len(u)-2] == 0x7e || u[len(u)-2] == 0x7d {
				u[len(u)-2] ^= 0x01
			}
			units[k] = u
			class = "bad-checksum"
		}
	case 8: // 0x1212 for a file name that was never announced, right after a 0x1212 that reported gaps
		for k := range units {
			// the first 0x1212 in the script (frames are 7e-delimited; id at bytes 1..2)
			if len(units[k]) > 3 && units[k][0] == 0x7e && units[k][1] == 0x12 && units[k][2] == 0x12 {
				stray := ctl(0x1212, body1211([]byte("never_announced"), 1, 9))
				units = append(units[:k+1:k+1], append([][]byte{stray}, units[k+1:]...)...)
				break
			}
		}
		class = "1212-for-unannounced-file"
	case 9: // 0x1211 for a file the 0x1210 did not list, then a chunk of that file and its 0x1212
		k := 1 + r.Intn(len(units))
		nm := []byte("not_listed.bin")
		ins := [][]byte{ctl(0x1211, body1211(nm, 1, 6)), chunkBytes(d, nm, 0, []byte{9, 8, 7}), ctl(0x1212, body1211(nm, 1, 6))}
		units = append(units[:k:k], append(ins[:1+r.Intn(3)], units[k:]...)...)
		class = "1211-for-unlisted-file"
	case 7: // the session starts with 0x1211 / 0x1212: no 0x1210 came first
		units = append([][]byte{ctl([]int{0x1211, 0x1212}[r.Intn(2)], body1211(files[0].name, 0, len(files[0].content)))}, units...)
		class = "control-before-1210"
	}
	return units, class
}

func init() {
	cmds["attach-gen"] = func(a []string) {
		os.Stdout, _ = os.Open(os.DevNull)
		n := atoi(a[0])
		out := newND(a[1])
		defer out.close()
		r := newRand(1516)
		allowHostile := len(a) > 2 && a[2] == "hostile"
		for s := 0; s < n; s++ {
			d := aDialects[r.Intn(5)]
			hostile := 0
			if allowHostile && s%3 != 0 {
				hostile = 1 + r.Intn(9)
			}
			us, class := randSession(r, d, hostile)
			units := make([]AUnit, len(us))
			for i := range us {
				units[i] = AUnit{Bytes: us[i]}
			}
			mode := []string{"unit", "all", "random", "random", "pair", "byte", "head", "head"}[r.Intn(8)]
			if total := func() (n int) {
				for _, u := range us {
					n += len(u)
				}
				return
			}(); mode == "byte" && total > 600 {
				mode = "random"
			}
			segs := segment(units, mode, r)
			// optionally the peer disappears early (EOF or reset) at a random point
			var endErr error
			if allowHostile && r.Intn(3) == 0 {
				k := r.Intn(len(segs) + 1)
				segs = segs[:k]
				if k > 0 && r.Intn(2) == 0 {
					last := segs[k-1]
					segs[k-1] = last[:r.Intn(len(last)+1)]
				}
				class += "+early-close"
				if r.Intn(2) == 0 {
					endErr = errors.New("read: connection reset by peer")
					class += "(reset)"
				}
			}
			out.put(aEvent{Ev: "reset", Sess: s, Dialect: d, Class: class, Obs: []AObs{}})
			// run, recording the observations produced between consecutive Reads
			conn := &scriptConn{segs: segs, endErr: endErr}
			rec := &recEventer{conn: conn}
			given := make([][]byte, len(segs))
			for i := range segs {
				given[i] = append([]byte{}, segs[i]...)
			}
			var marks []int // number of observations present when Read i was called
			conn.onRead = func(i int) { marks = append(marks, len(rec.obs)) }
			pn := protect(func() { runAttachOn(conn, d, rec) })
			// marks[k] = obs count at the k-th Read call; Read k (k < len(segs)) returned segs[k]
			for k := 0; k < len(marks) && k < len(given); k++ {
				hi := len(rec.obs)
				if k+1 < len(marks) {
					hi = marks[k+1]
				}
				obs := rec.obs[marks[k]:hi]
				if obs == nil {
					obs = []AObs{}
				}
				out.put(aEvent{Ev: "read", Sess: s, Bytes: given[k], Obs: obs})
			}
			q := quitClass(rec.quit)
			if pn != "" {
				q = "Panic"
			}
			out.put(aEvent{Ev: "close", Sess: s, Quit: q, Reset: endErr != nil && len(marks) > len(given), Class: class,
				Detail: pn + rec.quit, Obs: []AObs{}})
		}
	}
}

func init() {
	// re-run recorded sessions (replay files): same reads, fresh observations
	cmds["attach-rerun"] = func(a []string) {
		os.Stdout, _ = os.Open(os.DevNull)
		out := newND(a[1])
		defer out.close()
		var evs []aEvent
		if err := readND(a[0], func(i int, raw []byte) error {
			var e aEvent
			if err := jsonUnmarshal(raw, &e); err != nil {
				return err
			}
			evs = append(evs, e)
			return nil
		}); err != nil {
			die(err)
		}
		var segs [][]byte
		d, class, reset := "JS", "", false
		for _, e := range evs {
			switch e.Ev {
			case "reset":
				d, class = e.Dialect, e.Class
			case "read":
				segs = append(segs, e.Bytes)
			case "close":
				reset = e.Reset
			}
		}
		var endErr error
		if reset {
			endErr = errors.New("read: connection reset by peer")
		}
		out.put(aEvent{Ev: "reset", Sess: 0, Dialect: d, Class: class, Obs: []AObs{}})
		conn := &scriptConn{segs: segs, endErr: endErr}
		rec := &recEventer{conn: conn}
		given := make([][]byte, len(segs))
		for i := range segs {
			given[i] = append([]byte{}, segs[i]...)
		}
		var marks []int
		conn.onRead = func(i int) { marks = append(marks, len(rec.obs)) }
		pn := protect(func() { runAttachOn(conn, d, rec) })
		for k := 0; k < len(marks) && k < len(given); k++ {
			hi := len(rec.obs)
			if k+1 < len(marks) {
				hi = marks[k+1]
			}
			obs := rec.obs[marks[k]:hi]
			if obs == nil {
				obs = []AObs{}
			}
			out.put(aEvent{Ev: "read", Sess: 0, Bytes: given[k], Obs: obs})
		}
		q := quitClass(rec.quit)
		if pn != "" {
			q = "Panic"
		}
		out.put(aEvent{Ev: "close", Sess: 0, Quit: q, Reset: endErr != nil && len(marks) > len(given), Detail: pn + rec.quit, Obs: []AObs{}})
	}
}

func init() {
	// c15-big <out>: upload sessions with files of tens / hundreds of kilobytes through the real connection loop; summarised
	// for spec/Trace_BigUpload.tla (ranges decided there; the bytes of the stored file are compared here)
	cmds["c15-big"] = func(a []string) {
		os.Stdout, _ = os.Open(os.DevNull)
		out := newND(a[0])
		defer out.close()
		r := newRand(1565)
		type plan struct {
			size, chunk int
			lose        []int // indices of chunks withheld until the report
			dialect     string
		}
		plans := []plan{
			{3*65536 + 123, 65536, []int{1, 2}, "JS"},            // two adjacent 64 KiB chunks lost: one 128 KiB range
			{70000, 65536, []int{0}, "HLJ"},                      // the first 64 KiB lost
			{65536 + 65535, 65535, nil, "GD"},                    // nothing lost, lengths just below 2^16
			{200000, 1000, []int{0, 64, 65, 66, 131, 199}, "SC"}, // many small chunks, gaps at the 2^16 / 2^17 marks and both ends
			{131072, 131072, nil, "HN"},                          // one chunk of 2^17 bytes
			{100001, 40000, []int{2}, "JS"},                      // the tail lost
			{1500000, 60000, []int{0, 13}, "JS"},                 // 1.5 MB through one connection, its first chunk outstanding all the while
		}
		for pi, pl := range plans {
			content := make([]byte, pl.size)
			for i := range content {
				content[i] = byte(i*13 + i>>8 + pi)
			}
			phone := randPhone(r, 0)
			ser := 0
			ctl := func(id int, body []byte) []byte {
				ser++
				return buildFrame(hdrSpec{id: id, serial: ser, phone: phone, body: body})
			}
			name := []byte(fmt.Sprintf("big_%d.bin", pi))
			f := aFile{name, content}
			var first, lost []seg
			lose := map[int]bool{}
			for _, k := range pl.lose {
				lose[k] = true
			}
			for k, off := 0, 0; off < pl.size; k, off = k+1, off+pl.chunk {
				n := pl.chunk
				if off+n > pl.size {
					n = pl.size - off
				}
				if lose[k] {
					lost = append(lost, seg{off, n})
				} else {
					first = append(first, seg{off, n})
				}
			}
			// the ranges to resend: the lost chunks, adjacent ones merged (what the specification's report lists)
			var resend []seg
			for _, s := range lost {
				if n := len(resend); n > 0 && resend[n-1].Off+resend[n-1].Len == s.Off {
					resend[n-1].Len += s.Len
				} else {
					resend = append(resend, s)
				}
			}
			units := [][]byte{ctl(0x1210, body1210(pl.dialect, r, []aFile{f})), ctl(0x1211, body1211(name, 2, pl.size))}
			r.Shuffle(len(first), func(i, j int) { first[i], first[j] = first[j], first[i] })
			for _, s := range first {
				units = append(units, chunkBytes(pl.dialect, name, s.Off, content[s.Off:s.Off+s.Len]))
			}
			units = append(units, ctl(0x1212, body1211(name, 2, pl.size)))
			for _, s := range resend {
				units = append(units, chunkBytes(pl.dialect, name, s.Off, content[s.Off:s.Off+s.Len]))
			}
			units = append(units, ctl(0x1212, body1211(name, 2, pl.size)))
			var segs [][]byte // slices that fit the server's read buffer: one Read each
			for _, u := range units {
				for len(u) > 0 {
					n := len(u)
					if n > 50000 {
						n = 50000
					}
					segs = append(segs, append([]byte{}, u[:n]...))
					u = u[n:]
				}
			}
			run := runAttach(pl.dialect, segs, nil)
			ev := map[string]any{"size": pl.size, "chunks": first, "resent": resend, "report": []seg{}, "result1": -1, "result2": -1, "nreport2": -1,
				"completed": false, "contentok": false, "storedlen": -1, "quit": quitClass(run.Quit), "panic": run.Panic, "dialect": pl.dialect}
			if resend == nil {
				ev["resent"] = []seg{}
			}
			n9212 := 0
			for _, o := range run.Obs {
				if o.Kind == "chunk" && o.Complete {
					ev["completed"] = true
					ev["storedlen"] = len(o.Content)
					ev["contentok"] = bytes.Equal(o.Content, content)
				}
				if o.Kind != "control" || (o.Stage != "Complete" && o.Stage != "Supplementary") {
					continue
				}
				dv, _ := decodeView(o.Reply)
				if !dv.Ok || dv.ID != 0x9212 || len(dv.Body) < 4 {
					continue
				}
				b := dv.Body
				l := int(b[0])
				if len(b) < 4+l {
					continue
				}
				res, cnt := int(b[2+l]), int(b[3+l])
				var rep []seg
				for i := 0; i < cnt && 4+l+8*i+8 <= len(b); i++ {
					at := 4 + l + 8*i
					rep = append(rep, seg{int(binary.BigEndian.Uint32(b[at:])), int(binary.BigEndian.Uint32(b[at+4:]))})
				}
				n9212++
				if n9212 == 1 {
					if rep == nil {
						rep = []seg{}
					}
					ev["result1"], ev["report"] = res, rep
					if len(lost) == 0 { // nothing was lost: the first report is also the last
						ev["result2"], ev["nreport2"] = res, cnt
					}
				} else {
					ev["result2"], ev["nreport2"] = res, cnt
				}
			}
			out.put(ev)
		}
	}
}
