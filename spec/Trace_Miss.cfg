INIT Init
NEXT Next
INVARIANTS ReportExact ReportIsSpec WireExact ReadBack
CHECK_DEADLOCK FALSE
