package main

// Adapter for C20: runs the real terminal simulator for the configurations chosen by MC_Terminal,
// decodes/parses what it generates, asks it for the predicted platform reply and sends the same
// frame to a live service.GoJT808; everything is recorded for spec/Trace_Terminal.tla.

import (
	"bytes"
	"encoding/hex"
	"fmt"
	"math/rand"
	"sort"
	"sync"
	"sync/atomic"
	"time"

	"github.com/cuteLittleDevil/go-jt808/protocol/jt808"
	"github.com/cuteLittleDevil/go-jt808/protocol/model"
	"github.com/cuteLittleDevil/go-jt808/service"
	"github.com/cuteLittleDevil/go-jt808/shared/consts"
	"github.com/cuteLittleDevil/go-jt808/terminal"
)

type c20Config struct {
	Ver   int `json:"ver"`
	Phone B   `json:"phone"` // decimal digits
	Cmd   int `json:"cmd"`
}

type c20Event struct {
	Ver      int    `json:"ver"`
	Phone    B      `json:"phone"`
	Cmd      int    `json:"cmd"`
	Idx      int    `json:"idx"`
	Frame    B      `json:"frame"`
	HasPred  bool   `json:"haspred"`
	Pred     B      `json:"pred"`
	Pser     int    `json:"pser"`
	HasLive  bool   `json:"haslive"`
	Live     B      `json:"live"`
	LivePser int    `json:"livepser"`
	BodyOk   bool   `json:"bodyok"`
	BodyNote string `json:"bodynote,omitempty"`
	Kind     string `json:"kind"`
	PrevSame bool   `json:"prevsame"` // the frame generated before this one still has the bytes it had when it was returned
}

var replyBearing = map[int]bool{0x0100: true, 0x0102: true, 0x0002: true, 0x0200: true, 0x0704: true, 0x0800: true, 0x0801: true, 0x1003: true,
	0x1005: true, 0x1210: true, 0x1211: true, 0x1212: true}

type encoder interface{ Encode() []byte }

// bodyRoundTrip: the body parses without error with the matching message type and re-encodes identically
func bodyRoundTrip(cmd int, ver consts.ProtocolVersionType, body []byte) (bool, string) {
	var h modelHandler
	for _, t := range targets() {
		if t.id == cmd && t.name != "T0x0200+ext" {
			h = t.mk(ver, consts.ActiveSafetyJS).(*modelRecv).h
			break
		}
	}
	if h == nil {
		switch cmd { // types the C03 registry does not list
		case 0x8001:
			h = &model.P0x8001{}
		default:
			return true, "no model type registered for this id (not judged)"
		}
	}
	m := jt808.NewJTMessage()
	m.Header.ProtocolVersion = ver
	if ver == consts.JT808Protocol2019 {
		m.Header.Property.Version = 1
	}
	m.Body = exact(body)
	var err error
	if p := protect(func() { err = h.Parse(m) }); p != "" {
		return false, "parse panic: " + p
	}
	if err != nil {
		return false, "parse error: " + err.Error()
	}
	e, ok := h.(encoder)
	if !ok {
		return true, "type has no Encode (not judged)"
	}
	var out []byte
	if p := protect(func() { out = e.Encode() }); p != "" {
		return false, "encode panic: " + p
	}
	if !bytes.Equal(out, body) {
		return false, fmt.Sprintf("re-encoded %x differs from %x", out, body)
	}
	return true, ""
}

func init() {
	// c20-run <configs> <out> [wrap]
	cmds["c20-run"] = func(a []string) {
		var cfgs []c20Config
		if err := readND(a[0], func(i int, raw []byte) error {
			var c c20Config
			if err := jsonUnmarshal(raw, &c); err != nil {
				return err
			}
			cfgs = append(cfgs, c)
			return nil
		}); err != nil {
			die(err)
		}
		// group by (version, phone)
		type gk struct {
			ver   int
			phone string
		}
		groups := map[gk][]int{}
		for _, c := range cfgs {
			k := gk{c.Ver, string(c.Phone)}
			groups[k] = append(groups[k], c.Cmd)
		}
		var keys []gk
		for k := range groups {
			keys = append(keys, k)
		}
		sort.Slice(keys, func(i, j int) bool { return fmt.Sprint(keys[i]) < fmt.Sprint(keys[j]) })
		out := newND(a[1])
		defer out.close()
		// the server runs with a custom key function: terminals whose phone ends in an even digit are registered by their
		// authentication (0x0102) only - whatever they send before is answered all the same, as ExpectedReply predicts
		l := startLive(liveOpts{keyFunc: func(m *service.Message) (string, bool) {
			ph := m.JTMessage.Header.TerminalPhoneNo
			if n := len(ph); n > 0 && (ph[n-1]-'0')%2 == 0 && m.JTMessage.Header.ID != 0x0102 {
				return "", false
			}
			return ph, true
		}})
		r := newRand(2020)
		// other terminals are busy on the same server all the while (authentications with other codes, multimedia uploads with other
		// ids): what the server answers a simulator's frame does not depend on them
		stopNoise := make(chan struct{})
		defer close(stopNoise)
		for k := 0; k < 6; k++ {
			np := []byte{0x01, 0x32, 0x00, 0x00, 0x09, byte(0x10 + k)}
			nt := l.dial(np, k%2)
			if k%2 == 1 {
				nt.phone = append(make([]byte, 4), np...)
			}
			var progress atomic.Int64
			l.muted.Store(nt.idx, &progress)
			go func(nt *term, seed int64) {
				rr := rand.New(rand.NewSource(seed))
				go func() { // drain
					for range nt.recvCh {
					}
				}()
				for {
					select {
					case <-stopNoise:
						return
					default:
					}
					body := randBytes(rr, 8+rr.Intn(12))
					id := 0x0102
					if rr.Intn(3) == 0 {
						id, body = 0x0801, randBytes(rr, 40)
					} else if nt.ver == 1 {
						body = append(append([]byte{byte(len(body))}, body...), make([]byte, 35)...)
					}
					nt.conn.SetWriteDeadline(time.Now().Add(time.Second))
					if _, err := nt.conn.Write(nt.frame(id, body)); err != nil {
						return
					}
					if rr.Intn(64) == 0 {
						time.Sleep(20 * time.Microsecond)
					}
				}
			}(nt, r.Int63())
		}
		wrap := len(a) > 2 && a[2] == "wrap"
		missed := 0
		// every simulator exists before the first frame is generated (a fleet of simulated terminals in one process): each one
		// generates frames with its own phone whatever was constructed after it
		sims := map[gk]*terminal.Terminal{}
		for _, k := range keys {
			ph := ""
			for _, d := range []byte(k.phone) {
				ph += string(rune('0' + d))
			}
			sims[k] = terminal.New(terminal.WithHeader(consts.ProtocolVersionType(k.ver), ph))
		}
		for gi, k := range keys {
			ver := consts.ProtocolVersionType(k.ver)
			sim := sims[k]
			cmdsOf := groups[k]
			sort.Ints(cmdsOf)
			// one live connection per terminal
			n := 12
			if k.ver == 3 {
				n = 20
			}
			digits := append(make([]byte, n-len(k.phone)), []byte(k.phone)...)
			bcd := make([]byte, n/2)
			for i := range bcd {
				bcd[i] = digits[2*i]<<4 | digits[2*i+1]
			}
			t := l.dial(bcd, map[bool]int{true: 1, false: 0}[k.ver == 3])
			livePser, idx := 0, 0
			var heldFrame, heldCopy []byte
			emit := func(cmd int, frame []byte, kind string) {
				idx++
				e := c20Event{Ver: k.ver, Phone: B(k.phone), Cmd: cmd, Idx: idx, Frame: frame, Kind: kind, Pred: B{}, Live: B{}, PrevSame: true}
				if heldFrame != nil && !bytes.Equal(heldFrame, heldCopy) {
					e.PrevSame = false
				}
				heldFrame, heldCopy = frame, append([]byte{}, frame...)
				dv, m := decodeView(frame)
				if dv.Ok {
					e.BodyOk, e.BodyNote = bodyRoundTrip(cmd, ver, m.Body)
					if kind == "custom" {
						e.BodyOk, e.BodyNote = true, "custom body: not parsed"
					}
				}
				if replyBearing[cmd] && dv.Ok {
					e.Pser = []int{0, 1, 65535, 126, 32381, r.Intn(65536)}[r.Intn(6)]
					if p := protect(func() { e.Pred = sim.ExpectedReply(uint16(e.Pser), hex.EncodeToString(frame)) }); p == "" && e.Pred != nil {
						e.HasPred = true
					}
					if e.Pred == nil {
						e.Pred = B{}
					}
					// the same frame to the real server
					before := t.nrecv.Load()
					t.send(frame)
					wait := 8 * time.Second // generous: a slow machine must not look like a missing reply
					if missed >= 2 {
						wait = 300 * time.Millisecond // ... but once replies failed to come twice the remaining frames are not waited for at length
					}
					if t.waitRecv(before+1, wait) {
						var last []byte
						for len(t.recvCh) > 0 {
							last = <-t.recvCh
						}
						e.HasLive, e.Live, e.LivePser = true, last, livePser
						livePser = (livePser + 1) % 65536
					} else if kind != "custom" {
						missed++
						e.HasLive, e.Live, e.LivePser = true, B{}, livePser // no reply where one is due: Trace_Terminal rejects
					}
				}
				out.put(e)
			}
			for _, cmd := range cmdsOf {
				if f := sim.CreateDefaultCommandData(consts.JT808CommandType(cmd)); f != nil {
					emit(cmd, f, "default")
				}
			}
			// custom bodies through CreateCommandData (0..1023 bytes, escape dense)
			for i := 0; i < 4; i++ {
				body := randBody(r, gi*4+i)
				emit([]int{0x0002, 0x0200, 0x0900, 0x0704}[i], sim.CreateCommandData(consts.JT808CommandType([]int{0x0002, 0x0200, 0x0900, 0x0704}[i]), body), "custom")
			}
			// pipelined: frames sent without waiting for their replies, each in its own segment, while the server's writer lags behind
			// its reader (a slow write callback): the i-th reply is still the reply to the i-th frame
			if missed < 2 {
				var pf [][]byte
				var pc []int
				for len(pf) < 12 {
					before := len(pf)
					for _, cmd := range cmdsOf {
						if !replyBearing[cmd] {
							continue
						}
						if f := sim.CreateDefaultCommandData(consts.JT808CommandType(cmd)); f != nil {
							pf, pc = append(pf, f), append(pc, cmd)
						}
					}
					if len(pf) == before {
						break
					}
				}
				for len(t.recvCh) > 0 {
					<-t.recvCh
				}
				tt := t
				hold := func(c int) {
					if c == tt.idx {
						time.Sleep(700 * time.Microsecond)
					}
				}
				l.writeHold.Store(&hold)
				before := t.nrecv.Load()
				for _, f := range pf {
					t.send(f)
					time.Sleep(250 * time.Microsecond)
				}
				t.waitRecv(before+int64(len(pf)), 8*time.Second)
				l.writeHold.Store(nil)
				for i, f := range pf {
					idx++
					e := c20Event{Ver: k.ver, Phone: B(k.phone), Cmd: pc[i], Idx: idx, Frame: f, Kind: "pipelined", Pred: B{}, Live: B{}, PrevSame: true, HasLive: true, LivePser: livePser}
					if dv, m := decodeView(f); dv.Ok {
						e.BodyOk, e.BodyNote = bodyRoundTrip(pc[i], ver, m.Body)
					}
					select {
					case fr := <-t.recvCh:
						e.Live = fr
					default:
						missed++
					}
					livePser = (livePser + 1) % 65536
					out.put(e)
				}
			}
			if wrap && gi == 0 { // serial wrap: 65540 consecutive frames
				for i := 0; i < 65540; i++ {
					f := sim.CreateDefaultCommandData(consts.T0002HeartBeat)
					idx++
					if i%4096 == 0 || i > 65520-idx%1 && i >= 65500 {
						dv, _ := decodeView(f)
						out.put(c20Event{Ver: k.ver, Phone: B(k.phone), Cmd: 2, Idx: idx, Frame: f, Kind: "wrap", BodyOk: dv.Ok, Pred: B{}, Live: B{}, PrevSame: true})
					}
				}
			}
			t.close(false)
			time.Sleep(3 * time.Millisecond)
		}
		// a fleet: four simulated terminals authenticate 2000 times each, all at once, every frame answered as ExpectedReply says.
		// Every reply is compared here; a sample of them, and every one that differs from the prediction, goes to Trace_Terminal
		{
			var fleet []gk
			for _, k := range keys {
				if len(fleet) < 4 && len(k.phone) >= 4 {
					fleet = append(fleet, k)
				}
			}
			var fw sync.WaitGroup
			var emu sync.Mutex
			for fi, k := range fleet {
				fw.Add(1)
				go func(fi int, k gk) {
					defer fw.Done()
					sim := sims[k]
					n := 12
					if k.ver == 3 {
						n = 20
					}
					digits := append(make([]byte, n-len(k.phone)), []byte(k.phone)...)
					bcd := make([]byte, n/2)
					for i := range bcd {
						bcd[i] = digits[2*i]<<4 | digits[2*i+1]
					}
					t := l.dial(bcd, map[bool]int{true: 1, false: 0}[k.ver == 3])
					var progress atomic.Int64
					l.muted.Store(t.idx, &progress)
					const rounds = 2000
					frames := make([][]byte, rounds)
					code := asciiDigits(bcd) // the authentication code the server hands out at registration: the phone number
					body := code
					if k.ver == 3 {
						body = append(append([]byte{byte(len(code))}, code...), make([]byte, 35)...)
					}
					for i := range frames {
						frames[i] = sim.CreateCommandData(consts.T0102RegisterAuth, body)
					}
					go func() {
						for _, f := range frames {
							t.conn.Write(f)
						}
					}()
					for i := 0; i < rounds; i++ {
						var live []byte
						select {
						case live = <-t.recvCh:
						case <-time.After(8 * time.Second):
							i = rounds
							continue
						}
						pred := sim.ExpectedReply(uint16(i), hex.EncodeToString(frames[i]))
						if !bytes.Equal(pred, live) || i%97 == 0 {
							dv, _ := decodeView(frames[i])
							emu.Lock()
							out.put(c20Event{Ver: k.ver, Phone: B(k.phone), Cmd: 0x0102, Idx: dv.Serial, Frame: frames[i], Kind: "fleet", HasPred: true, Pred: pred, Pser: i,
								HasLive: true, Live: live, LivePser: i, BodyOk: true, PrevSame: true})
							emu.Unlock()
						}
					}
					t.close(false)
				}(fi, k)
			}
			fw.Wait()
		}
	}
}
