---------------------------- MODULE MC_FrameC02 ----------------------------
(* C02, exhaustive part.  Three families of byte strings, every one judged  *)
(* by Sound (operational Decode <=> declarative WellFormed, fields equal    *)
(* the positional reading) and emitted with the specification's verdict for *)
(* replay on the real JTMessage.Decode:                                     *)
(*  short : all strings up to MaxShort over {7E,7D,01,02,41} without        *)
(*          interior delimiter                                              *)
(*  wire  : a valid header followed by every *wire-level* string w up to    *)
(*          MaxWire over {7D,01,02,41,00} (valid and invalid escape         *)
(*          sequences), with length field = |unescaped w| + {-1,0,1} and    *)
(*          checksum exact / off by one, escaped / sent raw                 *)
(*  mut   : every single-bit flip, byte substitution, truncation, deletion, *)
(*          insertion and extension of the seed frames                      *)
EXTENDS Frame, TLC, Json, CSV, IOUtils

CONSTANTS MaxShort, MaxWire
AlphaShort == {126, 125, 1, 2, 65}
AlphaWire  == {125, 1, 2, 65, 0}
Subst      == {126, 125, 1, 2, 0}

P6  == <<1, 56, 0, 0, 0, 1>>
P10 == <<0, 0, 0, 0, 1, 56, 0, 0, 0, 1>>
Fld(id, ver, frag, enc3, rsv, phone, serial, total, no, body) ==
    [id |-> id, rsv15 |-> rsv, ver |-> ver, frag |-> frag, enc3 |-> enc3, verbyte |-> 1, phone |-> phone,
     serial |-> serial, total |-> total, no |-> no, body |-> body]
SeedFields == <<
    Fld(2, 0, 0, 0, 0, P6, 1, 0, 0, <<>>),
    Fld(512, 0, 0, 0, 0, P6, 65535, 0, 0, <<65>>),
    Fld(512, 0, 0, 1, 0, P6, 126, 0, 0, <<125, 1, 126>>),
    Fld(512, 0, 1, 0, 0, P6, 3, 3, 2, <<>>),
    Fld(512, 0, 1, 0, 0, P6, 3, 2, 1, <<65, 126, 2>>),
    Fld(2, 1, 0, 0, 0, P10, 1, 0, 0, <<>>),
    Fld(512, 1, 0, 0, 0, P10, 32381, 0, 0, <<65>>),
    Fld(256, 1, 0, 2, 1, P10, 9, 0, 0, <<125, 125, 2>>),
    Fld(512, 1, 1, 0, 0, P10, 3, 3, 2, <<>>),
    Fld(512, 1, 1, 1, 0, P10, 3, 258, 257, <<1, 125, 65>>),
    Fld(2, 0, 0, 0, 0, <<126, 125, 1, 2, 153, 126>>, 1, 0, 0, <<2>>),
    Fld(2, 1, 0, 0, 0, <<125, 126, 2, 1, 125, 125, 126, 126, 0, 125>>, 1, 0, 0, <<>>),
    \* message ids that need escaping themselves (0x0F7D, 0x7E00, 0x7D7E), and the all-zero phone in both layouts
    Fld(3965, 0, 0, 0, 0, P6, 1, 0, 0, <<1>>), Fld(32256, 1, 0, 0, 0, P10, 2, 0, 0, <<>>), Fld(32126, 0, 1, 0, 0, P6, 3, 2, 2, <<125>>),
    Fld(2, 0, 0, 0, 0, <<0, 0, 0, 0, 0, 0>>, 1, 0, 0, <<>>), Fld(512, 1, 0, 0, 0, <<0, 0, 0, 0, 0, 0, 0, 0, 0, 0>>, 1, 0, 0, <<65>>) >>
\* seed whose checksum is 7D, sent escaped and sent raw (the tolerated deviation)
Cs7D == LET x == Fld(2, 0, 0, 0, 0, P6, 1, 0, 0, <<0>>)
            c == XorAll(HeaderBytes(x, 1) \o <<0>>)
        IN [x EXCEPT !.body = <<c ^^ 125>>]
Seeds == [i \in 1..Len(SeedFields) |-> TerminalFrame(SeedFields[i])]
         \o << TerminalFrame(Cs7D), FramedRaw7D(Payload(Cs7D)) >>

WireHdr == << Fld(512, 0, 0, 0, 0, P6, 7, 0, 0, <<>>), Fld(512, 1, 1, 0, 0, P10, 7, 2, 1, <<>>) >>

VARIABLES kind, f, hv
vars == <<kind, f, hv>>

Put(s, i, b) == [s EXCEPT ![i] = b]
Ins(s, i, b) == Sub(s, 1, i - 1) \o <<b>> \o Sub(s, i, Len(s))      \* b becomes element i
Del(s, i)    == Sub(s, 1, i - 1) \o Sub(s, i + 1, Len(s))
Mutants(s) ==
    {Put(s, i, s[i] ^^ (2 ^ b)) : i \in 1..Len(s), b \in 0..7}
    \cup {Put(s, i, a) : i \in 1..Len(s), a \in Subst}
    \cup {Sub(s, 1, k) : k \in 0..Len(s) - 1} \cup {Sub(s, k, Len(s)) : k \in 2..Len(s)}
    \cup {Del(s, i) : i \in 1..Len(s)}
    \cup {Ins(s, i, a) : i \in 1..Len(s) + 1, a \in Subst \cup {65}}

\* prefix family: every prefix of a seed's header+body, closed with its own correct checksum and framed - truncated
\* headers of every layout (2013 / 2019, fragmented or not) that pass the checksum test
PrefixFrames == LET hb == HeaderBytes(SeedFields[hv], Len(SeedFields[hv].body)) \o SeedFields[hv].body
                IN {Framed(Append(Take(hb, n), XorAll(Take(hb, n)))) : n \in 0..Len(hb)}
Init == \/ kind = "short" /\ f = <<>> /\ hv = 0
        \/ kind = "prefix" /\ hv \in 1..Len(SeedFields) /\ f = <<>>
        \/ kind = "seed" /\ hv \in 1..Len(Seeds) /\ f = Seeds[hv]
        \/ kind = "wire" /\ hv \in 1..Len(WireHdr) /\ f = <<>>
Next == \/ /\ kind = "short" /\ Len(f) < MaxShort /\ NoInteriorFlag(f \o <<0>>)
           /\ \E a \in AlphaShort : f' = Append(f, a)
           /\ UNCHANGED <<kind, hv>>
        \/ kind = "seed" /\ kind' = "mut" /\ f' \in Mutants(f) /\ UNCHANGED hv
        \/ /\ kind = "wire" /\ Len(f) < MaxWire
           /\ \E a \in AlphaWire : f' = Append(f, a)
           /\ UNCHANGED <<kind, hv>>

\* wire family: the frames built around the wire-level body f
WireFrames ==
    LET x  == WireHdr[hv]
        u  == Lenient(f)
        L  == Len(u)
    IN UNION { LET hb == HeaderBytes(x, n)
                   cs == XorAll(hb \o u)
               IN { <<FLAG>> \o Escape(hb) \o f \o t \o <<FLAG>> :
                    t \in {Escape(<<cs>>), Escape(<<cs ^^ 1>>)} \cup (IF cs # FLAG THEN {<<cs>>} ELSE {}) }
             : n \in {L - 1, L, L + 1} \cap 0..1023 }

\* the same wire bodies extended by one forcing byte that makes the checksum 7D, sent escaped and raw:
\* escape pairs and the tolerated raw-7D checksum in one frame
WireForced ==
    LET x  == WireHdr[hv]
        u  == Lenient(f)
        hb == HeaderBytes(x, Len(u) + 1)
        z  == XorAll(hb \o u) ^^ 125
    IN IF z \in {125, 126} THEN {}
       ELSE { <<FLAG>> \o Escape(hb) \o f \o <<z>> \o t \o <<FLAG>> : t \in {<<125>>, <<125, 1>>, <<125, 2>>} }

Frames == IF kind = "wire" THEN WireFrames \cup WireForced ELSE IF kind = "prefix" THEN PrefixFrames ELSE {f}
Domain == {g \in Frames : NoInteriorFlag(g)}

View(g) == LET d == Decode(g) IN
           IF d.ok THEN [ok |-> TRUE, id |-> d.id, len |-> d.len, enc |-> d.enc, frag |-> d.frag, ver |-> d.ver,
                         digits |-> d.digits, serial |-> d.serial, total |-> d.total, no |-> d.no, body |-> d.body]
           ELSE [ok |-> FALSE]

SoundHere == \A g \in Domain : Sound(g)
SeedsValid == kind = "seed" => Decode(f).ok
Emit == \A g \in Domain : CSVWrite("%1$s", <<ToJson([f |-> g, d |-> View(g), kind |-> kind])>>, IOEnv.VERIF_OUT)
=============================================================================
