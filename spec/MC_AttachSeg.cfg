INIT Init
NEXT Next
CONSTANTS
  D = "JS"
  Ver = 0
INVARIANTS RefSane SegIndependent FinalOk EmitOnce
CHECK_DEADLOCK FALSE
