INIT Init
NEXT Next
CONSTANTS
  MaxLenFull = 4
  MaxLenThin = 1
INVARIANTS SrcOk PropertyHolds Emit
CHECK_DEADLOCK FALSE
