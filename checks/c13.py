"""C13 Disconnects never crash the server or strand callers (DESIGN.md section 5, C13)."""
import json, os
import vlib
from checks import live_common as lc

LEVEL = "model_checking"


def model(ctx, thorough):
    """(M) the goroutine/channel protocol as repaired: NoPanic (invariant) and Returns (liveness under fairness)"""
    cfgs = [dict(Callers="{1, 2}", MaxMsgs=1, CapMsg=2, CapActive=1, CapComplete=1, CapOp=2, TermResponds="TRUE")]
    if thorough:
        cfgs += [dict(Callers="{1, 2}", MaxMsgs=2, CapMsg=1, CapActive=2, CapComplete=1, CapOp=2, TermResponds="TRUE"),
                 dict(Callers="{1, 2}", MaxMsgs=2, CapMsg=1, CapActive=1, CapComplete=2, CapOp=1, TermResponds="FALSE")]
    # a terminal that never reads and never disconnects: the writer is stuck in its first command write for ever; every caller
    # still returns (the caller's own deadline, commit c4130fb; with Protocol "fixed" TLC refutes Returns here)
    cfgs.append(dict(Callers="{1, 2}", MaxMsgs=1, CapMsg=2, CapActive=1, CapComplete=1, CapOp=2, TermResponds="FALSE", TermReads="FALSE", TermCloses="FALSE"))
    for c in cfgs:
        consts = dict(c); consts["Protocol"] = '"fixed2"'; consts.setdefault("SerialMod", 4); consts["Identity"] = "TRUE"
        ctx.tlc("MC_Conn", constants=consts, workers=14, heap="10g", timeout=3000, name="MC_Conn_fixed2_%s" % json.dumps(c, sort_keys=True))
    # three callers: NoPanic and the other invariants only (MC_Conn_safety.cfg): the liveness graph of three callers does not
    # finish in an hour, Returns is checked with two callers above
    safety = [dict(Callers="{1, 2, 3}", MaxMsgs=1, CapMsg=1, CapActive=2, CapComplete=1, CapOp=2, TermResponds="TRUE", SerialMod=2)]
    if thorough:
        safety += [dict(Callers="{1, 2, 3}", MaxMsgs=2, CapMsg=1, CapActive=2, CapComplete=1, CapOp=2, TermResponds="TRUE", SerialMod=4),
                   dict(Callers="{1, 2, 3}", MaxMsgs=1, CapMsg=2, CapActive=1, CapComplete=1, CapOp=2, TermResponds="FALSE", TermReads="FALSE", TermCloses="FALSE", SerialMod=4)]
    for c in safety:
        consts = dict(c); consts["Protocol"] = '"fixed2"'; consts["Identity"] = "TRUE"
        ctx.tlc("MC_Conn", cfg="MC_Conn_safety", constants=consts, workers=14, heap="10g", timeout=3000, name="MC_Conn_safety_%s" % json.dumps(c, sort_keys=True))


def check(ctx):
    thorough = ctx.tier == "thorough"
    ctx.build()
    model(ctx, thorough)
    tr = os.path.join(ctx.scratch, "c13_live.ndjson")
    rc, err, events = lc.run_live(ctx, ["live-c13", 6 if thorough else 2, tr], timeout=1800)
    scen = {}
    cur = {}
    for e in events:
        if e["ev"] == "scenario":
            cur[e["c"]] = e["name"]
        scen[e["c"]] = cur.get(e["c"], "?")
    lc.crash_check(ctx, rc, err, "live-c13", {"kind": "live-c13", "last_scenario": (list(cur.values()) or ["?"])[-1], "tail": events[-40:]})
    nscen = 0
    for e in events:
        if e["ev"] == "scenario":
            nscen += 1
        if e["ev"] == "cmd_stranded":
            ctx.violation("caller-stranded scenario=%s" % scen.get(e["c"], "?"),
                          "SendActiveMessage(k=%d, timeout %d ms) had not returned %d ms after its timeout" % (e["k"], e["tmo"], 3000),
                          {"kind": "live-c13", "scenario": scen.get(e["c"]), "events": [x for x in events if x.get("c") == e["c"]][-60:]})
        if e["ev"] == "canary" and not e["alive"]:
            ctx.violation("server-not-serving-after-disconnects", "a fresh terminal got no heartbeat reply", {"kind": "live-c13"})
    if rc == 0 and not any(e["ev"] == "canary" for e in events):
        raise vlib.ToolFailure("live-c13 ended without its canary")
    ctx.note_impl("disconnect-scenarios-on-live-server", nscen, gates=sum(1 for e in events if e["ev"] == "gate" and e.get("released")))
    # what did happen is still checked step by step (commands, completions, returns) by Trace_Conn
    conns = lc.split_conns(events)
    lc.trace_conn(ctx, conns, "c13")
    ctx.sample({"from": "scenario", "events": [[e["p"], e["ev"], e.get("name"), e.get("kind"), e.get("wait")] for e in events if e["ev"] in ("scenario", "cmd_ret", "gate", "close")][:14]})
    # custom key function, one key the empty string: departed keys are not-exist at once for callers without a time-out too
    kt = os.path.join(ctx.scratch, "c13_key.ndjson")
    rc, err, kev = lc.run_live(ctx, ["live-c13key", kt], timeout=600)
    lc.crash_check(ctx, rc, err, "live-c13key")
    na = 0
    for e in kev:
        if e["ev"] == "cmd_stranded":
            ctx.violation("caller-stranded scenario=departed-key key=%r" % e.get("key", "?"), "SendActiveMessage(k=%s) for a departed key had not returned" % e.get("k"), {"kind": "live-c13key", "event": e})
        if e["ev"] == "assert":
            na += 1
            if not e["ok"]:
                ctx.violation("%s key=%r" % (e["what"], e.get("key")), "live-c13key: %s" % json.dumps(e), {"kind": "live-c13key", "event": e})
    if na < 20 and not ctx.viol:
        raise vlib.ToolFailure("live-c13key recorded %d assertions" % na)
    ctx.note_impl("departed-key-calls-with-custom-key-function", na)
    # a caller without a time-out whose command reuses, after the 16-bit wrap, the platform serial of an answered request whose
    # timer is still running: when the terminal leaves the caller is told
    wr = os.path.join(ctx.scratch, "c13_wrap.ndjson")
    r = ctx.vh(["live-c13wrap", wr], timeout=300)
    lc.crash_check(ctx, r.returncode, r.stderr, "live-c13wrap")
    w = vlib.read_nd(wr, quoted=False)[0]
    ctx.cov["wrap_run"] = w
    if w["b_kind"] != "closed" or w["b_after_close_ms"] > 2000:
        ctx.violation("caller-stranded scenario=stale-timer-after-serial-wrap", "the caller without a time-out got '%s' %d ms after its terminal left (request A's timer fired for the same platform serial %d before)"
                      % (w["b_kind"], w["b_after_close_ms"], w["a_seq"]), {"kind": "live-c13wrap", "observed": w})
    ctx.note_impl("serial-wrap-no-time-out-caller-scenario", 1)
    # a terminal that never reads: its writer stuck in Write with commands outstanding, queued and refused, then EOF / reset
    st = os.path.join(ctx.scratch, "c13_stall.ndjson")
    r = ctx.vh(["live-c13stall", st], timeout=400)
    lc.crash_check(ctx, r.returncode, r.stderr, "live-c13stall")
    sev = vlib.read_nd(st, quoted=False)
    from checks.c01 import trace_validate
    trace_validate(ctx, "Trace_Stall", st, sev, "stalled-writer-scenarios-validated-by-Trace_Stall", lambda inv, e: "%s variant=%s" % (inv, e.get("variant")))
    ctx.cov["stall_runs"] = [{k: e.get(k) for k in ("variant", "stalled", "manager_ok", "all_returned", "hung")} for e in sev]
    if not all(e.get("stalled") for e in sev):
        ctx.cov["stall_note"] = "the writer could not be stalled in at least one variant (12000 kilobyte commands were absorbed): that variant is not judged"
    ctx.cov["rule"] = ("MC_Conn: every interleaving of reader (incl. each step of stop()), writer select branches, time-out goroutines, manager and "
                       "callers for the stated capacities, terminal closing at any point; invariant NoPanic, liveness Returns under fairness. "
                       "Live: the disconnect catalogue (9 scenarios, 5 of them held at hook-point gates in the orderings the as-found model's "
                       "counterexamples use) x rounds with seeded jitter; every call must return by timeout + 3 s and the process must survive.")
    ctx.assumptions += ["bounded model: 2-3 callers, one connection, channel capacities 1-2 (the code's are 10/3/3/10)",
                        "gates hold a goroutine at a hook point for at most 1.5 s; a schedule that could not be forced is not a violation",
                        "Go's select picks among ready branches at random: each gated scenario is repeated per round"]


def replay(ctx, path):
    raise vlib.ToolFailure("live scenarios are re-run, not replayed: ./check C13 (the replay file holds the recorded events)")
