package main

// C10, attachment side over real TCP: hostile connection lifecycles against attachment.New().Run()
// with the default file handler, each followed by a canary upload that must complete and be stored.

import (
	"bytes"
	"encoding/binary"
	"fmt"
	"io"
	"io/fs"
	"net"
	"os"
	"path/filepath"
	"strings"
	"sync"
	"time"

	"github.com/cuteLittleDevil/go-jt808/attachment"
)

func init() {
	// live-attach <workdir> <out>
	cmds["live-attach"] = func(a []string) {
		if err := os.Chdir(a[0]); err != nil {
			die(err)
		}
		so := os.Stdout
		os.Stdout, _ = os.Open(os.DevNull) // the default handler prints every event
		addr := freePort()
		g := attachment.New(attachment.WithHostPorts(addr))
		go g.Run()
		for i := 0; i < 200; i++ {
			if c, err := net.DialTimeout("tcp", addr, 50*time.Millisecond); err == nil {
				c.Close()
				break
			}
			time.Sleep(10 * time.Millisecond)
		}
		out := newND(a[1])
		defer out.close()
		r := newRand(1020)
		phone := []byte{0x01, 0x32, 0x00, 0x00, 0x00, 0x09}
		nser := 0
		ctl := func(id int, body []byte) []byte {
			nser++
			return buildFrame(hdrSpec{id: id, serial: nser, phone: phone, body: body})
		}
		canary := func(after string, k int) {
			name := []byte(fmt.Sprintf("canary_%d.bin", k))
			content := randBytes(r, 200)
			c, err := net.Dial("tcp", addr)
			ok := err == nil
			if ok {
				c.SetDeadline(time.Now().Add(5 * time.Second))
				c.Write(ctl(0x1210, body1210("JS", r, []aFile{{name, content}})))
				c.Write(ctl(0x1211, body1211(name, 0, len(content))))
				c.Write(chunkBytes("JS", name, 100, content[100:]))
				c.Write(chunkBytes("JS", name, 0, content[:100]))
				c.Write(ctl(0x1212, body1211(name, 0, len(content))))
				// three replies: 0x8001, 0x8001, 0x9212 (complete)
				buf := make([]byte, 4096)
				var acc []byte
				for bytes.Count(acc, []byte{0x7e}) < 6 {
					n, err := c.Read(buf)
					if err != nil {
						ok = false
						break
					}
					acc = append(acc, buf[:n]...)
				}
				c.Close()
				time.Sleep(30 * time.Millisecond)
				got, err := os.ReadFile(filepath.Join("13200000009", string(name)))
				if err != nil || !bytes.Equal(got, content) {
					ok = false
				}
			}
			out.put(map[string]any{"ev": "canary", "after": after, "ok": ok})
		}
		canary("start", 0)
		hostile := []struct {
			name  string
			sends [][]byte
			reset bool
		}{
			{"connect-and-close", nil, false},
			{"connect-and-reset", nil, true},
			{"half-control-frame", [][]byte{ctl(0x1210, body1210("JS", r, []aFile{{[]byte("a"), []byte{1}}}))[:20]}, false},
			{"garbage", [][]byte{randBytes(r, 500)}, false},
			{"marker-then-close", [][]byte{{0x30, 0x31, 0x63, 0x64}}, true},
			{"chunk-header-announcing-4GB", [][]byte{ctl(0x1210, body1210("JS", r, []aFile{{[]byte("big"), []byte{1}}})), chunkBytes("JS", []byte("big"), 0, nil)[:54], {0, 0, 0, 0, 0xff, 0xff, 0xff, 0xff}, randBytes(r, 100)}, true},
			{"chunk-offset-just-below-2^32-completing-the-announced-size", [][]byte{ctl(0x1210, body1210("JS", r, []aFile{{[]byte("wrap"), make([]byte, 32)}})), ctl(0x1211, body1211([]byte("wrap"), 0, 32)),
				func() []byte {
					c := chunkBytes("JS", []byte("wrap"), 0, make([]byte, 32))
					copy(c[54:58], []byte{0xff, 0xff, 0xff, 0xf0})
					return c
				}(), ctl(0x1212, body1211([]byte("wrap"), 0, 32))}, false},
			{"chunk-offset-2^31-and-length-beyond-the-file", [][]byte{ctl(0x1210, body1210("JS", r, []aFile{{[]byte("far"), make([]byte, 10)}})), ctl(0x1211, body1211([]byte("far"), 0, 10)),
				func() []byte {
					c := chunkBytes("JS", []byte("far"), 0, make([]byte, 10))
					copy(c[54:58], []byte{0x80, 0x00, 0x00, 0x00})
					return c
				}(), ctl(0x1212, body1211([]byte("far"), 0, 10))}, false},
			{"chunk-for-unknown-file", [][]byte{ctl(0x1210, body1210("JS", r, []aFile{{[]byte("a"), []byte{1}}})), chunkBytes("JS", []byte("zzz"), 0, []byte{1, 2})}, false},
			{"1212-before-any-chunk", [][]byte{ctl(0x1210, body1210("JS", r, []aFile{{[]byte("a"), []byte{1, 2, 3}}})), ctl(0x1212, body1211([]byte("a"), 0, 3))}, false},
			{"1212-for-unknown-file", [][]byte{ctl(0x1210, body1210("JS", r, []aFile{{[]byte("a"), []byte{1, 2, 3}}})), ctl(0x1212, body1211([]byte("nobody"), 0, 3))}, false},
			{"bad-1210-count", [][]byte{func() []byte {
				b := body1210("JS", r, []aFile{{[]byte("a"), []byte{1}}})
				b[7+16+33] = 9
				return ctl(0x1210, b)
			}()}, false},
			{"unknown-command", [][]byte{ctl(0x0002, nil)}, false},
			{"1211-as-first-frame", [][]byte{ctl(0x1211, body1211([]byte("a"), 0, 3))}, false},
			{"1212-as-first-frame", [][]byte{ctl(0x1212, body1211([]byte("a"), 0, 3))}, false},
			{"reset-mid-file", [][]byte{ctl(0x1210, body1210("JS", r, []aFile{{[]byte("m"), randBytes(r, 50)}})), chunkBytes("JS", []byte("m"), 0, randBytes(r, 50))[:80]}, true},
			{"file-announced-with-size-0-then-a-data-chunk-for-it", [][]byte{ctl(0x1210, body1210("JS", r, []aFile{{[]byte("empty"), nil}, {[]byte("other"), []byte{1, 2}}})), ctl(0x1211, body1211([]byte("empty"), 0, 0)),
				chunkBytes("JS", []byte("empty"), 0, []byte{1, 2, 3}), chunkBytes("JS", []byte("empty"), 3, []byte{4}), ctl(0x1212, body1211([]byte("empty"), 0, 0))}, false},
			{"file-announced-with-size-0-and-an-empty-chunk", [][]byte{ctl(0x1210, body1210("JS", r, []aFile{{[]byte("empty"), nil}})), chunkBytes("JS", []byte("empty"), 0, nil), ctl(0x1212, body1211([]byte("empty"), 0, 0))}, false},
			{"1212-announcing-another-size-than-1210", [][]byte{ctl(0x1210, body1210("JS", r, []aFile{{[]byte("sz"), make([]byte, 40)}})), chunkBytes("JS", []byte("sz"), 0, make([]byte, 10)), ctl(0x1212, body1211([]byte("sz"), 0, 0)), ctl(0x1212, body1211([]byte("sz"), 0, 1<<31))}, false},
			{"fast:pipelined-control-frames-then-reset", [][]byte{func() []byte {
				b := ctl(0x1210, body1210("JS", r, []aFile{{[]byte("p"), make([]byte, 30)}}))
				for k := 0; k < 40; k++ {
					b = append(b, ctl(0x1211, body1211([]byte("p"), 0, 30))...)
					b = append(b, ctl(0x1212, body1211([]byte("p"), 0, 30))...)
				}
				return b
			}()}, true},
			{"fast:pipelined-control-frames-then-close", [][]byte{func() []byte {
				b := ctl(0x1210, body1210("JS", r, []aFile{{[]byte("q"), make([]byte, 30)}}))
				for k := 0; k < 40; k++ {
					b = append(b, ctl(0x1212, body1211([]byte("q"), 0, 30))...)
				}
				return b
			}()}, false},
			{"chunks-again-after-the-completion-report", [][]byte{ctl(0x1210, body1210("JS", r, []aFile{{[]byte("late"), make([]byte, 20)}})), ctl(0x1211, body1211([]byte("late"), 0, 20)),
				chunkBytes("JS", []byte("late"), 0, make([]byte, 20)), ctl(0x1212, body1211([]byte("late"), 0, 20)), chunkBytes("JS", []byte("late"), 0, make([]byte, 20)),
				chunkBytes("JS", []byte("late"), 5, make([]byte, 3)), ctl(0x1212, body1211([]byte("late"), 0, 20))}, false},
			{"every-file-type-byte-with-and-without-an-extension", func() [][]byte {
				var u [][]byte
				var fs []aFile
				for _, ft := range []int{0, 1, 4, 5, 6, 127, 128, 255} {
					fs = append(fs, aFile{[]byte(fmt.Sprintf("noext%d", ft)), []byte{1, 2}}, aFile{[]byte(fmt.Sprintf("ext%d.bin", ft)), []byte{3}})
				}
				u = append(u, ctl(0x1210, body1210("JS", r, fs)))
				for i, ft := range []int{0, 1, 4, 5, 6, 127, 128, 255} {
					for _, f := range fs[2*i : 2*i+2] {
						u = append(u, ctl(0x1211, body1211(f.name, byte(ft), len(f.content))), chunkBytes("JS", f.name, 0, f.content), ctl(0x1212, body1211(f.name, byte(ft), len(f.content))))
					}
				}
				return u
			}(), false},
			{"name-with-dotdot", [][]byte{ctl(0x1210, body1210("JS", r, []aFile{{[]byte("../../escape"), []byte{1}}})), ctl(0x1211, body1211([]byte("../../escape"), 0, 1)), chunkBytes("JS", []byte("../../escape"), 0, []byte{7}), ctl(0x1212, body1211([]byte("../../escape"), 0, 1))}, false},
		}
		for i, h := range hostile {
			c, err := net.Dial("tcp", addr)
			if err == nil {
				fast := strings.HasPrefix(h.name, "fast:") // everything at once, gone before the first reply can be written
				for _, s := range h.sends {
					c.Write(s)
					if !fast {
						time.Sleep(time.Millisecond)
					}
				}
				if !fast {
					time.Sleep(5 * time.Millisecond)
				}
				if !h.reset && !fast { // read what the server answered, so that the close is an orderly end of the session and not a reset
					c.SetReadDeadline(time.Now().Add(40 * time.Millisecond))
					io.Copy(io.Discard, c)
				}
				if h.reset {
					c.(*net.TCPConn).SetLinger(0)
				}
				c.Close()
			}
			time.Sleep(20 * time.Millisecond)
			canary(h.name, i+1)
		}
		// a terminal that pipelines: 41 control frames in one write, nothing read until all are sent - every one of them is answered
		{
			c, err := net.Dial("tcp", addr)
			ok := err == nil
			if ok {
				c.SetDeadline(time.Now().Add(8 * time.Second))
				name := []byte("pipe.bin")
				b := ctl(0x1210, body1210("JS", r, []aFile{{name, make([]byte, 30)}}))
				for k := 0; k < 20; k++ {
					b = append(b, ctl(0x1211, body1211(name, 0, 30))...)
					b = append(b, ctl(0x1212, body1211(name, 0, 30))...)
				}
				c.Write(b)
				time.Sleep(300 * time.Millisecond) // (the replies pile up unread for a while)
				buf := make([]byte, 8192)
				var acc []byte
				for bytes.Count(acc, []byte{0x7e}) < 82 {
					n, err := c.Read(buf)
					if err != nil {
						ok = false
						break
					}
					acc = append(acc, buf[:n]...)
				}
				c.Close()
			}
			out.put(map[string]any{"ev": "canary", "after": "41-control-frames-pipelined (every one answered)", "ok": ok})
		}
		// announcements with values at the end of their ranges: a file of 4 GiB - 1 (and of 0xFFFF0001 bytes) asked about at once;
		// a BCD time made of the nibble 0xA; then an ordinary upload
		for k, sz := range []uint32{0xFFFFFFFF, 0xFFFF0001, 0x80000000} {
			if c, err := net.Dial("tcp", addr); err == nil {
				name := []byte(fmt.Sprintf("huge%d", k))
				b := body1210("JS", r, []aFile{{name, nil}})
				binary.BigEndian.PutUint32(b[len(b)-4:], sz)
				for i := 7 + 7; i < 7+7+6; i++ {
					b[i] = 0xAA // the alarm sign's time
				}
				c.Write(ctl(0x1210, b))
				bb := body1211(name, 0, 0)
				binary.BigEndian.PutUint32(bb[len(bb)-4:], sz)
				c.Write(ctl(0x1211, bb))
				c.Write(ctl(0x1212, bb))
				c.SetReadDeadline(time.Now().Add(60 * time.Millisecond))
				io.Copy(io.Discard, c)
				c.Close()
			}
			time.Sleep(20 * time.Millisecond)
			canary(fmt.Sprintf("announced-size-%x-and-a-time-of-AA", sz), 900+k)
		}
		os.Stdout = so
	}
}

func init() {
	// live-attach-overlap <workdir> <out>: the real attachment server with its default options (the default file handler as
	// the server itself creates it), several terminals whose sessions overlap in time, plus sessions that fail half way with
	// a hostile file name.  One event per file found afterwards: {phone of the terminal whose content it holds, path}.
	cmds["live-attach-overlap"] = func(a []string) {
		if err := os.Chdir(a[0]); err != nil {
			die(err)
		}
		so := os.Stdout
		os.Stdout, _ = os.Open(os.DevNull)
		defer func() { os.Stdout = so }()
		addr := freePort()
		g := attachment.New(attachment.WithHostPorts(addr))
		go g.Run()
		for i := 0; i < 200; i++ {
			if c, err := net.DialTimeout("tcp", addr, 50*time.Millisecond); err == nil {
				c.Close()
				break
			}
			time.Sleep(10 * time.Millisecond)
		}
		r := newRand(1921)
		type sess struct {
			phone   []byte
			name    []byte
			content []byte
			c       net.Conn
			ser     int
			judged  bool // a completed upload whose stored file is compared with what was uploaded
		}
		mk := func(k int, name string) *sess {
			s := &sess{phone: []byte{0x01, 0x36, 0x00, 0x00, 0x00, byte(k)}, name: []byte(name)}
			s.content = bytes.Repeat([]byte{byte(0x80 + k)}, 40+k)
			for i := range s.content {
				s.content[i] ^= byte(i) & 0x0f // position-dependent, still owned by one terminal (high nibble and length)
			}
			c, err := net.Dial("tcp", addr)
			if err != nil {
				die(err)
			}
			c.SetDeadline(time.Now().Add(8 * time.Second))
			s.c = c
			return s
		}
		ctl := func(s *sess, id int, body []byte) {
			s.ser++
			s.c.Write(buildFrame(hdrSpec{id: id, serial: s.ser, phone: s.phone, body: body}))
			time.Sleep(3 * time.Millisecond)
		}
		announce := func(s *sess) { ctl(s, 0x1210, body1210("JS", r, []aFile{{s.name, s.content}})) }
		upload := func(s *sess, upto int) {
			ctl(s, 0x1211, body1211(s.name, 0, len(s.content)))
			s.c.Write(chunkBytes("JS", s.name, 0, s.content[:upto]))
			time.Sleep(3 * time.Millisecond)
		}
		finish := func(s *sess) {
			// the completion request and, right behind it in the same segment, the file's chunk once more (a retransmission that
			// crossed the 0x1212: an exact resend changes nothing)
			s.ser++
			last := buildFrame(hdrSpec{id: 0x1212, serial: s.ser, phone: s.phone, body: body1211(s.name, 0, len(s.content))})
			s.c.Write(append(last, chunkBytes("JS", s.name, 0, s.content)...))
			time.Sleep(5 * time.Millisecond)
			// read the three replies before closing (unread data at close turns the FIN into a reset)
			buf := make([]byte, 4096)
			var acc []byte
			for bytes.Count(acc, []byte{0x7e}) < 6 {
				n, err := s.c.Read(buf)
				if err != nil {
					break
				}
				acc = append(acc, buf[:n]...)
			}
			s.c.Close()
			time.Sleep(20 * time.Millisecond)
		}
		var all []*sess
		// 1. A announces, B announces, A uploads and leaves, B uploads and leaves
		sa, sb := mk(1, "a_file.bin"), mk(2, "b_file.bin")
		all = append(all, sa, sb)
		announce(sa)
		announce(sb)
		upload(sa, len(sa.content))
		finish(sa)
		upload(sb, len(sb.content))
		finish(sb)
		// 2. the same file name from two terminals at the same time
		sc, sd := mk(3, "same.bin"), mk(4, "same.bin")
		all = append(all, sc, sd)
		announce(sc)
		announce(sd)
		upload(sd, len(sd.content))
		upload(sc, len(sc.content))
		finish(sc)
		finish(sd)
		for _, s := range all {
			s.judged = true
		}
		// 2a. a terminal whose phone number is all zeros (an unprovisioned device): its directory is "000000000000"
		sz := mk(20, "zero.bin")
		sz.phone = make([]byte, 6)
		sz.judged = true
		all = append(all, sz)
		announce(sz)
		upload(sz, len(sz.content))
		finish(sz)
		// 2b. a terminal uploads a file again under the same name, shorter this time: what is stored is the second upload
		s1, s2 := mk(21, "again.bin"), mk(21, "again.bin")
		s1.content = append(append([]byte{}, s1.content...), bytes.Repeat([]byte{0xEE}, 50)...)
		s2.judged = true
		all = append(all, s1, s2)
		announce(s1)
		upload(s1, len(s1.content))
		finish(s1)
		announce(s2)
		upload(s2, len(s2.content))
		finish(s2)
		// 2c. many sessions end at the same instant (each is saved when its connection ends)
		{
			var group []*sess
			for k := 0; k < 12; k++ {
				g := mk(30+k, fmt.Sprintf("burst_%d.bin", k%3))
				g.judged = true
				group = append(group, g)
				all = append(all, g)
				announce(g)
				upload(g, len(g.content))
				ctl(g, 0x1212, body1211(g.name, 0, len(g.content)))
			}
			time.Sleep(60 * time.Millisecond)
			fire := make(chan struct{})
			var wg sync.WaitGroup
			for _, g := range group {
				wg.Add(1)
				go func(g *sess) {
					defer wg.Done()
					buf := make([]byte, 4096)
					g.c.SetReadDeadline(time.Now().Add(30 * time.Millisecond))
					g.c.Read(buf) // the replies
					<-fire
					g.c.Close()
				}(g)
			}
			time.Sleep(50 * time.Millisecond)
			close(fire)
			wg.Wait()
			time.Sleep(150 * time.Millisecond)
		}
		// 3. hostile names, partial upload, then the session fails (unsupported command) or the terminal just leaves
		for k, nm := range []string{"../../evil_part", "../evil_close", "x/../../evil3"} {
			se := mk(5+k, nm)
			all = append(all, se)
			announce(se)
			upload(se, 7)
			if k%2 == 0 {
				ctl(se, 0x0002, nil)
			}
			se.c.Close()
			time.Sleep(30 * time.Millisecond)
		}
		time.Sleep(100 * time.Millisecond)
		out := newND(a[1])
		defer out.close()
		root := a[0]
		// every completed upload is stored under its own terminal's directory, with its own bytes
		for _, s := range all {
			if !s.judged {
				continue
			}
			got, err := os.ReadFile(filepath.Join(root, string(asciiDigits(s.phone)), string(s.name)))
			out.put(map[string]any{"name": B(s.name), "phone": B(asciiDigits(s.phone)), "written": [][]B{}, "uploaded": true,
				"stored": err == nil && bytes.Equal(got, s.content), "len": len(got)})
		}
		filepath.WalkDir(filepath.Dir(filepath.Dir(root)), func(p string, d fs.DirEntry, err error) error {
			if err != nil || d.IsDir() {
				return nil
			}
			rel, _ := filepath.Rel(root, p)
			if rel == "file.log" {
				return nil
			}
			data, _ := os.ReadFile(p)
			owner := B("nobody")
			var name B
			for _, s := range all {
				if len(data) > 0 && bytes.HasPrefix(s.content, data) { // complete or partial content of that terminal
					owner, name = asciiDigits(s.phone), s.name
				}
			}
			var segs []B
			for _, x := range strings.Split(rel, string(filepath.Separator)) {
				segs = append(segs, B(x))
			}
			out.put(map[string]any{"name": name, "phone": owner, "written": [][]B{segs}, "uploaded": false, "stored": false, "len": len(data)})
			return nil
		})
	}
}
