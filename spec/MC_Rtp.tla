------------------------------- MODULE MC_Rtp -------------------------------
(* C17 exhaustive part: streams of up to MaxPkts packets (first packet over *)
(* every data type 0..15 x mark x M bit x payload length; later packets     *)
(* from a thinner set), cut at EVERY length; plus marker-like prefixes.     *)
(* Every (stream, cut) is checked on the spec (LoopExact) and emitted with  *)
(* the expected decode sequence for replay on jt1078.Packet.Decode.         *)
EXTENDS Rtp, TLC, Json, CSV, IOUtils

CONSTANTS MaxPkts, MaxPay

Desc(dt, mark, m, k, n) ==      \* k selects distinguishable field values; n payload bytes
    [a5 |-> 129, a6 |-> m * 128 + (IF k = 0 THEN 98 ELSE 6), seq |-> 4660 + k, sim |-> <<16 * k + 2 * k, 1, 56, 0, 16, 1>>,   \* later packets differ from the first in the FIRST BCD byte only
     channel |-> 1 + k, dt |-> dt, mark |-> mark,
     ts |-> <<1 + k, 2, 3, 4, 5, 6, 7, 200>>, ival1 |-> 770 + k, ival2 |-> 1284,
     payload |-> [i \in 1..n |-> (IF i = 1 THEN 48 ELSE 160 + i + k)]]      \* payload may begin like the marker

First == {Desc(dt, mark, m, 0, n) : dt \in 0..15, mark \in {0, 3, 15}, m \in {0, 1}, n \in 0..MaxPay}
Later == {Desc(dt, 2, 0, 1, n) : dt \in {0, 3, 4, 9}, n \in {0, MaxPay}}

Strip(r) == IF r.class = "Packet" THEN [k \in DOMAIN r \ {"rest"} |-> r[k]] ELSE r

VARIABLES pk,     \* sequence of packet descriptors
          junk    \* or: an arbitrary prefix over marker bytes, zero-padded to several lengths
Init == pk = <<>> /\ junk = <<>>
Next == \/ /\ Len(pk) < MaxPkts /\ junk = <<>>
           /\ \E d \in (IF Len(pk) = 0 THEN First ELSE Later) : pk' = Append(pk, d)
           /\ UNCHANGED junk
        \/ /\ pk = <<>> /\ Len(junk) < 5
           /\ \E a \in {48, 49, 99, 100, 0} : junk' = Append(junk, a)
           /\ UNCHANGED pk

JunkStrings == IF junk = <<>> THEN {} ELSE {junk \o [i \in 1..(n - Len(junk)) |-> 0] : n \in {Len(junk), 15, 16, 17, 29, 30, 31}}
\* >= 16 bytes not starting with the marker are Unqualified, < 16 bytes are Short - never a packet
JunkClassified == \A g \in JunkStrings :
    LET r == DecodeOne(g) IN
    /\ Len(g) < 16 => r.class = "Short"
    /\ Len(g) >= 16 /\ Sub(g, 1, 4) # Marker => r.class = "Unqualified"
EmitJunk == \A g \in JunkStrings :
    CSVWrite("%1$s", <<ToJson([data |-> g, out |-> [i \in 1..Len(Loop(g)) |-> Strip(Loop(g)[i])]])>>, IOEnv.VERIF_OUT)

Stream == Concat([i \in 1..Len(pk) |-> Encode(pk[i])])
Bounds == [i \in 0..Len(pk) |-> Len(Concat([j \in 1..i |-> Encode(pk[j])]))]    \* packet boundaries

Expected(i) == [d \in {pk[i]} |->
    [class |-> "Packet", v |-> d.a5 \div 64, p |-> (d.a5 \div 32) % 2, x |-> (d.a5 \div 16) % 2, cc |-> d.a5 % 16,
     m |-> d.a6 \div 128, pt |-> d.a6 % 128, seq |-> d.seq, sim |-> PhoneDigits(d.sim), channel |-> d.channel,
     dt |-> d.dt, mark |-> d.mark, ts |-> IF HasTimestamp(d.dt) THEN d.ts ELSE <<0, 0, 0, 0, 0, 0, 0, 0>>,
     ival1 |-> IF HasIntervals(d.dt) THEN d.ival1 ELSE 0, ival2 |-> IF HasIntervals(d.dt) THEN d.ival2 ELSE 0,
     blen |-> Len(d.payload), payload |-> d.payload]][pk[i]]


\* the property on the specification: for every cut n, the loop yields exactly the packets that
\* are complete at n (fields as generated), then Short if n is inside a packet, End at a boundary
LoopExact == junk # <<>> \/
    \A n \in 0..Len(Stream) :
        LET out  == Loop(Sub(Stream, 1, n))
            full == Cardinality({i \in 1..Len(pk) : Bounds[i] <= n})
        IN /\ Len(out) = full + 1
           /\ \A i \in 1..full : Strip(out[i]) = Expected(i) /\ out[i].rest = Sub(Stream, Bounds[i] + 1, n)
           /\ out[full + 1].class = (IF n = Bounds[full] THEN "End" ELSE "Short")

Emit == junk # <<>> \/ \A n \in 0..Len(Stream) :
          CSVWrite("%1$s", <<ToJson([data |-> Sub(Stream, 1, n),
                                     out |-> [i \in 1..Len(Loop(Sub(Stream, 1, n))) |-> Strip(Loop(Sub(Stream, 1, n))[i])]])>>,
                   IOEnv.VERIF_OUT)
=============================================================================
