package main

import (
	"fmt"
	"io"
	"log/slog"
	"os"
)

var cmds = map[string]func(args []string){}

func main() {
	if len(os.Args) < 2 {
		fmt.Fprintln(os.Stderr, "usage: vh <cmd> args...")
		os.Exit(2)
	}
	if os.Getenv("VERIF_LOG") == "" { // the code under test logs every rejected packet
		slog.SetDefault(slog.New(slog.NewTextHandler(io.Discard, nil)))
	}
	f, ok := cmds[os.Args[1]]
	if !ok {
		fmt.Fprintln(os.Stderr, "unknown command", os.Args[1])
		os.Exit(2)
	}
	f(os.Args[2:])
}
