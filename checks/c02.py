"""C02 Frame validation: exactly the well-formed frames are accepted (DESIGN.md section 5, C02)."""
import json, os
import vlib
from checks.c01 import run_results, trace_validate

LEVEL = "model_checking"


def check(ctx):
    thorough = ctx.tier == "thorough"
    ctx.build()
    cases = os.path.join(ctx.scratch, "c02_cases.ndjson")
    ctx.tlc("MC_FrameC02", constants={"MaxShort": 8 if thorough else 6, "MaxWire": 6 if thorough else 4},
            env={"VERIF_OUT": cases}, workers=12)
    res = os.path.join(ctx.scratch, "c02_res.ndjson")
    ctx.vh_ok(["c02-replay", cases, res])
    run_results(ctx, res, "spec-strings-replayed-on-JTMessage.Decode")
    n = 6000 if thorough else 800
    tr = os.path.join(ctx.scratch, "c02_trace.ndjson")
    ctx.vh_ok(["c02-gen", n, tr])
    events = vlib.read_nd(tr, quoted=False)
    trace_validate(ctx, "Trace_FrameC02", tr, events, "impl-verdicts-validated-by-Trace_FrameC02",
                   lambda inv, e: "%s %s impl=%s" % (inv, e.get("kind", "?"), "accept" if e.get("d", {}).get("ok") else "reject"))
    ctx.cov["rule"] = ("TLC enumerates (a) all strings up to MaxShort over {7E,7D,01,02,41} without interior delimiter, "
                       "(b) a valid header followed by every wire-level string up to MaxWire over {7D,01,02,41,00} with "
                       "length field and checksum exact/off-by-one, checksum escaped/raw, (c) every single-bit flip, "
                       "substitution, truncation, deletion and insertion of 14 seed frames; each judged by "
                       "Decode<=>WellFormed on the spec and replayed on the real decoder. Distinct by construction.")
    ctx.cov["exhaustive"] = True
    ctx.assumptions += ["strings with interior 0x7E are outside the property and are not generated/judged",
                        "error kinds are not judged (the property demands an error, not which one)"]


def replay(ctx, path):
    r = json.load(open(path))["replay"]
    ctx.build()
    c = r.get("case") or r.get("event")
    tr = os.path.join(ctx.scratch, "one_tr.ndjson")
    # re-run the real decoder on the string, then let the spec judge
    f = os.path.join(ctx.scratch, "one.ndjson"); open(f, "w").write("".join(json.dumps(x) + "\n" for x in (c if isinstance(c, list) else [c])))
    out = os.path.join(ctx.scratch, "one_res.ndjson")
    ctx.vh_ok(["c02-replay", f, out]); run_results(ctx, out, "replay")
