module verif/harness

go 1.23.2

require (
	github.com/cuteLittleDevil/go-jt808/attachment v0.0.0
	github.com/cuteLittleDevil/go-jt808/protocol v1.12.0
	github.com/cuteLittleDevil/go-jt808/service v0.0.0
	github.com/cuteLittleDevil/go-jt808/shared v1.5.0
	github.com/cuteLittleDevil/go-jt808/terminal v0.0.0
)

require golang.org/x/text v0.21.0

replace (
	github.com/cuteLittleDevil/go-jt808/attachment => /repo/attachment
	github.com/cuteLittleDevil/go-jt808/protocol => /repo/protocol
	github.com/cuteLittleDevil/go-jt808/service => /repo/service
	github.com/cuteLittleDevil/go-jt808/shared => /repo/shared
	github.com/cuteLittleDevil/go-jt808/terminal => /repo/terminal
)
