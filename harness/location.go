package main

// Adapter for spec/Location.tla (C08): the specification's reading of a location body (standard
// tables) is compared field by field with model.T0x0200, with each item of a model.T0x0704 batch and
// with the block embedded in a model.T0x0801.

import (
	"bytes"
	"encoding/binary"
	"encoding/json"
	"fmt"
	"os"
	"reflect"
	"sort"
	"strings"
	"sync"

	"github.com/cuteLittleDevil/go-jt808/protocol/jt808"
	"github.com/cuteLittleDevil/go-jt808/protocol/model"
	"github.com/cuteLittleDevil/go-jt808/shared/consts"
)

type locItem struct {
	ID   int            `json:"id"`
	Len  int            `json:"len"`
	Data B              `json:"data"`
	V    map[string]any `json:"v"`
}

type locView struct {
	Ok       bool      `json:"ok"`
	Alarm    B         `json:"alarm"`
	Status   B         `json:"status"`
	Lat      B         `json:"lat"`
	Lon      B         `json:"lon"`
	Alt      B         `json:"alt"`
	Speed    B         `json:"speed"`
	Dir      B         `json:"dir"`
	Time     B         `json:"time"`
	Alarms   []string  `json:"alarms"`
	Statuses []string  `json:"statuses"`
	Items    []locItem `json:"items"`
}

type locCase struct {
	Body   B              `json:"body"`
	Fam    string         `json:"fam"`
	R      locView        `json:"r"`
	Tables bool           `json:"tables"`
	Alarm  map[string]int `json:"alarm"`
	Status map[string]int `json:"status"`
	Ext    map[string]int `json:"ext"`
	IO     map[string]int `json:"io"`
}

func trueFields(v any, skip ...string) []string {
	rv := reflect.ValueOf(v)
	var out []string
	for i := 0; i < rv.NumField(); i++ {
		if rv.Field(i).Kind() == reflect.Bool && rv.Field(i).Bool() {
			out = append(out, rv.Type().Field(i).Name)
		}
	}
	sort.Strings(out)
	return out
}

func be(v any) []byte {
	switch x := v.(type) {
	case uint32:
		return binary.BigEndian.AppendUint32(nil, x)
	case uint16:
		return binary.BigEndian.AppendUint16(nil, x)
	case uint8:
		return []byte{x}
	}
	return nil
}

func anyBytes(v any) []byte { // JSON array of numbers -> bytes
	xs, _ := v.([]any)
	out := make([]byte, len(xs))
	for i, x := range xs {
		f, _ := x.(float64)
		out[i] = byte(f)
	}
	return out
}
func anyStrings(v any) []string {
	xs, _ := v.([]any)
	var out []string
	for _, x := range xs {
		out = append(out, x.(string))
	}
	sort.Strings(out)
	return out
}

func bcdTime(b []byte) string {
	return fmt.Sprintf("20%02x-%02x-%02x %02x:%02x:%02x", b[0], b[1], b[2], b[3], b[4], b[5])
}

// cmpBase compares the basic block; returns "" or (field, detail)
func cmpBase(exp locView, it model.T0x0200LocationItem) (string, string) {
	chk := func(name string, got, want []byte) (string, string) {
		if !bytes.Equal(got, want) {
			return name, fmt.Sprintf("%s: got %x want %x", name, got, want)
		}
		return "", ""
	}
	for _, c := range []struct {
		n    string
		g, w []byte
	}{{"AlarmSign", be(it.AlarmSign), exp.Alarm}, {"StatusSign", be(it.StatusSign), exp.Status}, {"Latitude", be(it.Latitude), exp.Lat},
		{"Longitude", be(it.Longitude), exp.Lon}, {"Altitude", be(it.Altitude), exp.Alt}, {"Speed", be(it.Speed), exp.Speed}, {"Direction", be(it.Direction), exp.Dir}} {
		if f, d := chk(c.n, c.g, c.w); f != "" {
			return f, d
		}
	}
	if it.DateTime != bcdTime(exp.Time) {
		return "DateTime", fmt.Sprintf("got %q want %q", it.DateTime, bcdTime(exp.Time))
	}
	wa := append([]string{}, exp.Alarms...)
	sort.Strings(wa)
	if ga := trueFields(it.AlarmSignDetails); strings.Join(ga, ",") != strings.Join(wa, ",") {
		return "alarm-flags", fmt.Sprintf("alarm word %x: got %v want %v", []byte(exp.Alarm), ga, wa)
	}
	ws := append([]string{}, exp.Statuses...)
	sort.Strings(ws)
	if gs := trueFields(it.StatusSignDetails); strings.Join(gs, ",") != strings.Join(ws, ",") {
		return "status-flags", fmt.Sprintf("status word %x: got %v want %v", []byte(exp.Status), gs, ws)
	}
	return "", ""
}

func cmpItems(exp []locItem, ad model.T0x0200AdditionDetails) (string, string) {
	if len(ad.Additions) != len(exp) {
		return "item-count", fmt.Sprintf("got %d items want %d", len(ad.Additions), len(exp))
	}
	for _, e := range exp {
		a, ok := ad.Additions[consts.JT808LocationAdditionType(e.ID)]
		if !ok {
			return fmt.Sprintf("item-%02x-missing", e.ID), ""
		}
		if int(a.ID) != e.ID || int(a.Len) != e.Len || !bytes.Equal(a.Content.Data, e.Data) {
			return fmt.Sprintf("item-%02x-raw", e.ID), fmt.Sprintf("got id=%d len=%d data=%x want len=%d data=%x", a.ID, a.Len, a.Content.Data, e.Len, []byte(e.Data))
		}
		c := a.Content
		bad := func(f string, got, want []byte) (string, string) {
			if !bytes.Equal(got, want) {
				return fmt.Sprintf("item-%02x-%s", e.ID, f), fmt.Sprintf("content %x: got %x want %x", []byte(e.Data), got, want)
			}
			return "", ""
		}
		var f, d string
		for name, w := range e.V {
			switch name {
			case "Mile":
				f, d = bad(name, be(c.Mile), anyBytes(w))
			case "Oil":
				f, d = bad(name, be(c.Oil), anyBytes(w))
			case "Speed":
				f, d = bad(name, be(c.Speed), anyBytes(w))
			case "ManualAlarm":
				f, d = bad(name, be(c.ManualAlarm), anyBytes(w))
			case "CarTemperature":
				f, d = bad(name, be(c.CarTemperature), anyBytes(w))
			case "Analog":
				f, d = bad(name, be(c.Analog), anyBytes(w))
			case "WIFISignalStrength":
				f, d = bad(name, []byte{c.WIFISignalStrength}, []byte{byte(w.(float64))})
			case "GNSSPositionNum":
				f, d = bad(name, []byte{c.GNSSPositionNum}, []byte{byte(w.(float64))})
			case "OverSpeedType":
				f, d = bad(name, []byte{c.OverSpeedAlarm.LocationType}, []byte{byte(w.(float64))})
			case "OverSpeedAreaID":
				f, d = bad("area-id", be(c.OverSpeedAlarm.AreaID), anyBytes(w))
			case "AreaType":
				f, d = bad(name, []byte{c.AreaAlarm.LocationType}, []byte{byte(w.(float64))})
			case "AreaID":
				f, d = bad(name, be(c.AreaAlarm.AreaID), anyBytes(w))
			case "AreaDirection":
				f, d = bad(name, []byte{c.AreaAlarm.Direction}, []byte{byte(w.(float64))})
			case "RoadID":
				f, d = bad(name, be(c.DrivingTimeInsufficientAlarm.RoadSectionID), anyBytes(w))
			case "RoadSeconds":
				f, d = bad(name, be(c.DrivingTimeInsufficientAlarm.RoadSectionDrivingTimeSecond), anyBytes(w))
			case "RoadResult":
				f, d = bad(name, []byte{c.DrivingTimeInsufficientAlarm.Result}, []byte{byte(w.(float64))})
			case "ExtValue":
				f, d = bad(name, be(c.ExtendVehicleStatus.Value), anyBytes(w))
			case "ExtFlags":
				if g, ww := trueFields(c.ExtendVehicleStatus), anyStrings(w); strings.Join(g, ",") != strings.Join(ww, ",") {
					f, d = fmt.Sprintf("item-%02x-flags", e.ID), fmt.Sprintf("word %x: got %v want %v", []byte(e.Data), g, ww)
				}
			case "IOValue":
				f, d = bad(name, be(c.IOStatus.Value), anyBytes(w))
			case "IOFlags":
				if g, ww := trueFields(c.IOStatus), anyStrings(w); strings.Join(g, ",") != strings.Join(ww, ",") {
					f, d = fmt.Sprintf("item-%02x-flags", e.ID), fmt.Sprintf("word %x: got %v want %v", []byte(e.Data), g, ww)
				}
			case "Tire": // compared as a map with default 0 (zero entries are omitted by the implementation)
				for i, wv := range anyBytes(w) {
					if c.TirePressure.Values[uint8(i)] != wv {
						f, d = "item-05-tyre", fmt.Sprintf("tyre %d: got %d want %d", i, c.TirePressure.Values[uint8(i)], wv)
					}
				}
			}
			if f != "" {
				return f, d
			}
		}
	}
	return "", ""
}

func jtBody(b []byte) *jt808.JTMessage {
	m := jt808.NewJTMessage()
	m.Header.ProtocolVersion = consts.JT808Protocol2013
	m.Body = exact(b)
	return m
}

func init() {
	cmds["c08-replay"] = func(a []string) {
		os.Stdout, _ = os.Open(os.DevNull)
		out := newND(a[1])
		defer out.close()
		n := 0
		classes := map[string]int{}
		var samples []any
		seen := map[string]int{}
		put := func(sig, det string, c any) {
			seen[sig]++
			if seen[sig] <= 3 {
				out.put(mismatch{sig, det, c})
			}
		}
		var tables, prevCase *locCase
		reused0200, custom0200 := &model.T0x0200{}, &model.T0x0200{}
		custom0200.T0x0200AdditionDetails.CustomAdditionContentFunc = func(id uint8, content []byte) (model.AdditionContent, bool) {
			return model.AdditionContent{}, false
		}
		var prev0200 locCase
		primer0200 := append(bytes.Repeat([]byte{0xff}, 8), []byte{1, 2, 3, 4, 5, 6, 7, 8, 0, 9, 0, 10, 0, 11, 0x24, 0x10, 0x01, 0x23, 0x59, 0x59,
			0x01, 4, 0, 0, 0, 9, 0x02, 2, 0, 7, 0x25, 4, 0xff, 0xff, 0xff, 0xff, 0x2a, 2, 0xff, 0xff, 0x30, 1, 9, 0xe1, 2, 7, 7}...)
		reused0801 := &model.T0x0801{}
		reused0704 := &model.T0x0704{}
		var last0704 *locCase
		pairWith := func(prev *locCase, c locCase) any {
			if prev == nil {
				return c
			}
			return []locCase{*prev, c}
		}
		err := readND(a[0], func(i int, raw []byte) error {
			var c locCase
			if err := jsonUnmarshal(raw, &c); err != nil {
				return err
			}
			if c.Tables {
				tables = &c
				return nil
			}
			n++
			classes[c.Fam+map[bool]string{true: " accepted", false: " rejected"}[c.R.Ok]]++
			if len(samples) < 3 && len(c.R.Items) == 2 && n%531 == 7 {
				samples = append(samples, map[string]any{"body": c.Body, "items": c.R.Items})
			}
			// carrier 1: 0x0200
			var t model.T0x0200
			var err error
			if p := protect(func() { err = t.Parse(jtBody(c.Body)) }); p != "" {
				put("0x0200 parse-panic", p, c)
				return nil
			}
			// carrier 1b: a long-lived receiver that has parsed every earlier body (handlers are reused), and a receiver whose
			// custom item function is registered but declines every item: both read this body exactly like the fresh default
			// receiver above (which is compared with the specification below)
			// (the reused receiver has just read a body with every alarm and status bit set and several items: the most there is to forget)
			protect(func() { reused0200.Parse(jtBody(primer0200)) })
			for vi, recv := range []*model.T0x0200{reused0200, custom0200} {
				var e2 error
				who := []string{"0x0200 reused-receiver", "0x0200 custom-item-function-declining"}[vi]
				if p := protect(func() { e2 = recv.Parse(jtBody(c.Body)) }); p != "" || (e2 == nil) != (err == nil) {
					put(who+fmt.Sprintf(" accept-differs fresh-ok=%v", err == nil), fmt.Sprint(p, e2), []locCase{prev0200, c})
					continue
				}
				if err != nil {
					continue
				}
				j1, _ := json.Marshal([]any{t.T0x0200LocationItem, t.T0x0200AdditionDetails.Additions})
				j2, _ := json.Marshal([]any{recv.T0x0200LocationItem, recv.T0x0200AdditionDetails.Additions})
				if !bytes.Equal(j1, j2) {
					put(who+" reads-differently", diffWindow(string(j1), string(j2)), []locCase{prev0200, c})
				}
			}
			prev0200 = c
			if (err == nil) != c.R.Ok {
				// which item made the difference?
				put(fmt.Sprintf("0x0200 accept-differs spec-ok=%v", c.R.Ok), fmt.Sprintf("body %x: impl err=%v", []byte(c.Body), err), c)
				return nil
			}
			if !c.R.Ok {
				return nil
			}
			if f, d := cmpBase(c.R, t.T0x0200LocationItem); f != "" {
				put("0x0200 "+f, d, c)
				return nil
			}
			if f, d := cmpItems(c.R.Items, t.T0x0200AdditionDetails); f != "" {
				put("0x0200 "+f, d, c)
				return nil
			}
			// carrier 2: the same body as both items of a 0x0704 batch
			var b704 []byte
			b704 = append(b704, 0, 2, 1)
			for k := 0; k < 2; k++ {
				b704 = binary.BigEndian.AppendUint16(b704, uint16(len(c.Body)))
				b704 = append(b704, c.Body...)
			}
			if len(b704) <= 1023 {
				var t7 model.T0x0704
				if p := protect(func() { err = t7.Parse(jtBody(b704)) }); p != "" || err != nil || len(t7.Items) != 2 {
					put("0x0704 batch-not-parsed", fmt.Sprint(p, err, len(t7.Items)), c)
					return nil
				}
				// ... and through a long-lived receiver: the items it handed out for the previous batch are the caller's - they read
				// the same after this batch has been parsed - and the items of this batch are decoded from this batch only
				heldItems := reused0704.Items
				heldSnap, herr := json.Marshal(heldItems)
				var rerr error
				if p := protect(func() { rerr = reused0704.Parse(jtBody(b704)) }); p != "" || rerr != nil || len(reused0704.Items) != 2 {
					put("0x0704 reused-receiver batch-not-parsed", fmt.Sprint(p, rerr, len(reused0704.Items)), c)
					reused0704 = &model.T0x0704{}
				} else {
					if now, err2 := json.Marshal(heldItems); herr == nil && err2 == nil && !bytes.Equal(now, heldSnap) {
						put("0x0704 items-handed-out-earlier-changed-by-the-next-parse", diffWindow(string(heldSnap), string(now)), pairWith(last0704, c))
					}
					cc := c
					last0704 = &cc
					a, e1 := json.Marshal(reused0704.Items)
					b, e2 := json.Marshal(t7.Items)
					if e1 == nil && e2 == nil && !bytes.Equal(a, b) {
						put("0x0704 reused-receiver-differs", diffWindow(string(b), string(a)), c)
						reused0704 = &model.T0x0704{}
					}
				}
				for k := range t7.Items {
					if f, d := cmpBase(c.R, t7.Items[k].T0x0200LocationItem); f != "" {
						put("0x0704 "+f, d, c)
						return nil
					}
					if f, d := cmpItems(c.R.Items, t7.Items[k].T0x0200AdditionDetails); f != "" {
						put("0x0704 "+f, d, c)
						return nil
					}
				}
			}
			// carrier 2b: a heterogeneous batch [previous accepted body, this base block without items, this body]:
			// every item of a batch is decoded from its own bytes only
			if prevCase != nil {
				type part struct {
					body []byte
					r    locView
					bare bool
				}
				parts := []part{{prevCase.Body, prevCase.R, false}, {c.Body[:28], c.R, true}, {c.Body, c.R, false}}
				hb := []byte{0, 3, byte(len(c.Body) % 2)} // (type 1: a batch re-reported from a blind area - still item by item, in wire order)
				for _, p := range parts {
					hb = binary.BigEndian.AppendUint16(hb, uint16(len(p.body)))
					hb = append(hb, p.body...)
				}
				if len(hb) <= 1023 {
					var t7 model.T0x0704
					if p := protect(func() { err = t7.Parse(jtBody(hb)) }); p != "" || err != nil || len(t7.Items) != 3 {
						put("0x0704 mixed-batch-not-parsed", fmt.Sprint(p, err, len(t7.Items)), []locCase{*prevCase, c})
						return nil
					}
					for k, p := range parts {
						if f, d := cmpBase(p.r, t7.Items[k].T0x0200LocationItem); f != "" {
							put("0x0704 mixed-batch "+f, fmt.Sprintf("item %d: %s", k, d), []locCase{*prevCase, c})
							return nil
						}
						exp := p.r.Items
						if p.bare {
							exp = nil
						}
						if f, d := cmpItems(exp, t7.Items[k].T0x0200AdditionDetails); f != "" {
							put("0x0704 mixed-batch "+f, fmt.Sprintf("item %d of [%x | base only | %x]: %s", k, []byte(prevCase.Body), []byte(c.Body), d), []locCase{*prevCase, c})
							return nil
						}
					}
				}
			}
			// carrier 2c: a batch of type 1 (re-reported from a blind area) whose items are not in time order on the wire: item i of
			// the decoded batch is item i of the wire, each equal to the same bytes decoded as a 0x0200 of their own
			{
				withTime := func(tm []byte) []byte {
					b := append([]byte{}, c.Body...)
					copy(b[22:28], tm)
					return b
				}
				order := [][]byte{withTime([]byte{0x99, 0x12, 0x31, 0x23, 0x59, 0x59}), withTime([]byte{0x00, 0x01, 0x01, 0x00, 0x00, 0x00}), withTime([]byte{0x24, 0x06, 0x15, 0x12, 0x00, 0x00})}
				ob := []byte{0, 3, 1}
				for _, b := range order {
					ob = binary.BigEndian.AppendUint16(ob, uint16(len(b)))
					ob = append(ob, b...)
				}
				if len(ob) <= 1023 {
					var t7 model.T0x0704
					if p := protect(func() { err = t7.Parse(jtBody(ob)) }); p != "" || err != nil || len(t7.Items) != 3 {
						put("0x0704 blind-area-batch-not-parsed", fmt.Sprint(p, err, len(t7.Items)), c)
						return nil
					}
					for k, b := range order {
						var one model.T0x0200
						if e1 := one.Parse(jtBody(b)); e1 != nil {
							continue
						}
						if one.T0x0200LocationItem.DateTime != t7.Items[k].T0x0200LocationItem.DateTime {
							put("0x0704 blind-area-batch item-order", fmt.Sprintf("item %d of the wire has time %s, item %d of the decoded batch %s", k, one.T0x0200LocationItem.DateTime, k, t7.Items[k].T0x0200LocationItem.DateTime), c)
							return nil
						}
					}
				}
			}
			if len(c.R.Items) > 0 {
				cc := c
				prevCase = &cc
			}
			// carrier 3: the basic block at bytes 8..35 of a 0x0801
			b801 := append([]byte{0, 0, 0, 9, 0, 0, 1, 2}, c.Body[:28]...)
			b801 = append(b801, 0xff, 0xd8)
			var t8 model.T0x0801
			if p := protect(func() { err = t8.Parse(jtBody(b801)) }); p != "" || err != nil {
				put("0x0801 not-parsed", fmt.Sprint(p, err), c)
				return nil
			}
			if f, d := cmpBase(c.R, t8.T0x0200LocationItem); f != "" {
				put("0x0801 "+f, d, c)
			}
			// ... and as the service delivers a reassembled upload: under the header of the package that arrived last
			m8 := jtBody(b801)
			m8.Header.Property.PacketFragmented = 1
			m8.Header.SubPackageSum, m8.Header.SubPackageNo = 3, uint16(2+n%2)
			protect(func() {
				reused0801.Parse(jtBody(append(append([]byte{0, 0, 0, 9, 0, 0, 1, 2}, primer0200[:28]...), 0xff, 0xd8)))
			})
			if p := protect(func() { err = reused0801.Parse(m8) }); p != "" || err != nil {
				put("0x0801 under-sub-package-header not-parsed", fmt.Sprint(p, err), c)
			} else if f, d := cmpBase(c.R, reused0801.T0x0200LocationItem); f != "" {
				put("0x0801 under-sub-package-header "+f, d, c)
			}
			return nil
		})
		if err != nil {
			die(err)
		}
		// thorough: structured and pseudo-random alarm and status words (see sweepWords) against the specification's exported bit tables
		if len(a) > 2 && a[2] == "sweep" && tables != nil {
			sweepWords(tables, func(sig, det string) { put(sig, det, nil) })
			classes["sweep: 2^21 structured + 2^24 random alarm words"] = 1<<21 + 1<<24
			classes["sweep: 2^21 structured + 2^24 random status words"] = 1<<21 + 1<<24
		}
		out.put(summary{Summary: true, Cases: n, Distinct: n, Classes: classes, Samples: samples})
	}
}

// sweepWords: every 32-bit alarm word and status word through the real flag decoders, compared with
// bit(w, table[name]) for the tables exported by TLC (the three-line table evaluator is trusted base)
func sweepWords(t *locCase, report func(sig, det string)) {
	type ent struct {
		idx int
		bit uint
	}
	mk := func(typ reflect.Type, tab map[string]int) []ent {
		var es []ent
		for i := 0; i < typ.NumField(); i++ {
			if typ.Field(i).Type.Kind() != reflect.Bool {
				continue
			}
			b, ok := tab[typ.Field(i).Name]
			if !ok {
				report("flag-not-in-standard-table "+typ.Field(i).Name, "")
				continue
			}
			es = append(es, ent{i, uint(b)})
		}
		return es
	}
	aEnts := mk(reflect.TypeOf(model.AlarmSignDetails{}), t.Alarm)
	sEnts := mk(reflect.TypeOf(model.StatusSignDetails{}), t.Status)
	var wg sync.WaitGroup
	var mu sync.Mutex
	bad := 0
	const workers = 16
	for w := 0; w < workers; w++ {
		wg.Add(1)
		go func(w int) {
			defer wg.Done()
			body := make([]byte, 28)
			// every upper half-word with a set of lower half-words, every lower half-word with a set of upper half-words (each flag
			// must depend on its own bit and on nothing else: all pairs of half-word patterns), and 2^24 pseudo-random words
			pats := []uint32{0, 0xffff, 0x5555, 0xaaaa, 0x00ff, 0xff00, 0x0f0f, 0xf0f0, 0x3333, 0xcccc, 0x8001, 0x7ffe, 0x1234, 0xedcb, 0x0001, 0x8000}
			rng := uint32(0x9e3779b9) * uint32(w+1)
			for k := w; k < 2*(1<<16)*len(pats)+(1<<24); k += workers {
				var word uint32
				switch {
				case k < (1<<16)*len(pats):
					word = uint32(k%(1<<16))<<16 | pats[k>>16]
				case k < 2*(1<<16)*len(pats):
					kk := k - (1<<16)*len(pats)
					word = pats[kk>>16]<<16 | uint32(kk%(1<<16))
				default:
					rng ^= rng << 13
					rng ^= rng >> 17
					rng ^= rng << 5
					word = rng
				}
				{
					binary.BigEndian.PutUint32(body[0:4], word)
					binary.BigEndian.PutUint32(body[4:8], word)
					var it model.T0x0200
					if it.Parse(jtBody2(body)) != nil {
						continue
					}
					av, sv := reflect.ValueOf(it.AlarmSignDetails), reflect.ValueOf(it.StatusSignDetails)
					for _, e := range aEnts {
						if av.Field(e.idx).Bool() != (word>>e.bit&1 == 1) {
							mu.Lock()
							if bad < 5 {
								report("alarm-flag-sweep "+av.Type().Field(e.idx).Name, fmt.Sprintf("word %08x", word))
							}
							bad++
							mu.Unlock()
						}
					}
					for _, e := range sEnts {
						if sv.Field(e.idx).Bool() != (word>>e.bit&1 == 1) {
							mu.Lock()
							if bad < 5 {
								report("status-flag-sweep "+sv.Type().Field(e.idx).Name, fmt.Sprintf("word %08x", word))
							}
							bad++
							mu.Unlock()
						}
					}
				}
			}
		}(w)
	}
	wg.Wait()
}

func jtBody2(b []byte) *jt808.JTMessage {
	m := jt808.NewJTMessage()
	m.Body = b
	return m
}

// ---------------------------------------------------------------- I->S: random bodies, implementation's reading recorded

func implView(t *model.T0x0200) locView {
	it := t.T0x0200LocationItem
	v := locView{Ok: true, Alarm: be(it.AlarmSign), Status: be(it.StatusSign), Lat: be(it.Latitude), Lon: be(it.Longitude), Alt: be(it.Altitude),
		Speed: be(it.Speed), Dir: be(it.Direction), Alarms: trueFields(it.AlarmSignDetails), Statuses: trueFields(it.StatusSignDetails)}
	if v.Alarms == nil {
		v.Alarms = []string{}
	}
	if v.Statuses == nil {
		v.Statuses = []string{}
	}
	// the time is rendered as text by the implementation: back to BCD digits
	var tb []byte
	for _, c := range it.DateTime {
		if c >= '0' && c <= '9' {
			tb = append(tb, byte(c-'0'))
		}
	}
	if len(tb) == 14 {
		tb = tb[2:]
	}
	for i := 0; i+1 < len(tb); i += 2 {
		v.Time = append(v.Time, tb[i]<<4|tb[i+1])
	}
	var ids []int
	for id := range t.T0x0200AdditionDetails.Additions {
		ids = append(ids, int(id))
	}
	sort.Ints(ids)
	v.Items = []locItem{}
	for _, id := range ids {
		a := t.T0x0200AdditionDetails.Additions[consts.JT808LocationAdditionType(id)]
		c := a.Content
		item := locItem{ID: id, Len: int(a.Len), Data: append(B{}, c.Data...), V: map[string]any{}}
		switch id {
		case 0x01:
			item.V["Mile"] = B(be(c.Mile))
		case 0x02:
			item.V["Oil"] = B(be(c.Oil))
		case 0x03:
			item.V["Speed"] = B(be(c.Speed))
		case 0x04:
			item.V["ManualAlarm"] = B(be(c.ManualAlarm))
		case 0x05:
			tp := make(B, 30)
			for k, x := range c.TirePressure.Values {
				if int(k) < 30 {
					tp[k] = x
				}
			}
			item.V["Tire"] = tp
		case 0x06:
			item.V["CarTemperature"] = B(be(c.CarTemperature))
		case 0x11:
			item.V["OverSpeedType"] = int(c.OverSpeedAlarm.LocationType)
			item.V["OverSpeedAreaID"] = B(be(c.OverSpeedAlarm.AreaID))
		case 0x12:
			item.V["AreaType"], item.V["AreaID"], item.V["AreaDirection"] = int(c.AreaAlarm.LocationType), B(be(c.AreaAlarm.AreaID)), int(c.AreaAlarm.Direction)
		case 0x13:
			d := c.DrivingTimeInsufficientAlarm
			item.V["RoadID"], item.V["RoadSeconds"], item.V["RoadResult"] = B(be(d.RoadSectionID)), B(be(d.RoadSectionDrivingTimeSecond)), int(d.Result)
		case 0x25:
			fl := trueFields(c.ExtendVehicleStatus)
			if fl == nil {
				fl = []string{}
			}
			item.V["ExtValue"], item.V["ExtFlags"] = B(be(c.ExtendVehicleStatus.Value)), fl
		case 0x2a:
			fl := trueFields(c.IOStatus)
			if fl == nil {
				fl = []string{}
			}
			item.V["IOValue"], item.V["IOFlags"] = B(be(c.IOStatus.Value)), fl
		case 0x2b:
			item.V["Analog"] = B(be(c.Analog))
		case 0x30:
			item.V["WIFISignalStrength"] = int(c.WIFISignalStrength)
		case 0x31:
			item.V["GNSSPositionNum"] = int(c.GNSSPositionNum)
		default:
			item.V["Unknown"] = true
		}
		v.Items = append(v.Items, item)
	}
	return v
}

func init() {
	cmds["c08-gen"] = func(a []string) {
		n := atoi(a[0])
		out := newND(a[1])
		defer out.close()
		r := newRand(808)
		std := []int{1, 2, 3, 4, 5, 6, 0x11, 0x12, 0x13, 0x25, 0x2a, 0x2b, 0x30, 0x31}
		adm := map[int][]int{1: {4}, 2: {2}, 3: {2}, 4: {2}, 5: {30}, 6: {2}, 0x11: {1, 5}, 0x12: {6}, 0x13: {7}, 0x25: {4}, 0x2a: {2}, 0x2b: {4}, 0x30: {1}, 0x31: {1}}
		for i := 0; i < n; i++ {
			body := randBytes(r, 22)
			for k := 0; k < 6; k++ { // valid BCD time
				body = append(body, byte(r.Intn(10)<<4|r.Intn(10)))
			}
			for k := 0; k < r.Intn(6); k++ {
				id := std[r.Intn(len(std))]
				ln := adm[id][r.Intn(len(adm[id]))]
				switch r.Intn(8) {
				case 0:
					id = []int{0x14, 0x15, 0xe1, 0x64, 0xff}[r.Intn(5)]
					ln = r.Intn(12)
				case 1:
					ln += []int{-1, 1}[r.Intn(2)]
				}
				if ln < 0 {
					ln = 0
				}
				c := randBytes(r, ln)
				if id == 0x11 && ln > 0 && r.Intn(2) == 0 {
					c[0] = 0
				}
				body = append(body, byte(id), byte(ln))
				body = append(body, c...)
			}
			if r.Intn(15) == 0 && len(body) > 28 {
				body = body[:28+r.Intn(len(body)-28)]
			}
			var t model.T0x0200
			var err error
			e := map[string]any{"body": B(body)}
			if p := protect(func() { err = t.Parse(jtBody(body)) }); p != "" {
				e["r"] = map[string]any{"ok": false, "panic": p}
			} else if err != nil {
				e["r"] = map[string]any{"ok": false}
			} else {
				e["r"] = implView(&t)
			}
			out.put(e)
		}
	}
}
