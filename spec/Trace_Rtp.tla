------------------------------ MODULE Trace_Rtp ------------------------------
(* C17, implementation -> specification: decode loops recorded from the     *)
(* real jt1078 decoder on seeded random packet streams (payloads 0..950 and *)
(* beyond, random cut points, random strings).                              *)
EXTENDS Rtp, TLC, Json, IOUtils

Trace == ndJsonDeserialize(IOEnv.VERIF_TRACE)
VARIABLE l
Init == l = 0
Next == l = 0 /\ l' \in 1..Len(Trace)
E == Trace[l]
Strip(r) == IF r.class = "Packet" THEN [k \in DOMAIN r \ {"rest"} |-> r[k]] ELSE r
SpecOut == LET o == Loop(E.data) IN [i \in 1..Len(o) |-> Strip(o[i])]
\* same number of steps, same class at every step
ClassesMatch == l = 0 \/ (Len(E.out) = Len(SpecOut) /\ \A i \in 1..Len(SpecOut) : E.out[i].class = SpecOut[i].class)
\* every decoded packet has the standard's field values and payload
FieldsMatch == l = 0 \/ \A i \in 1..Len(SpecOut) :
    (i <= Len(E.out) /\ SpecOut[i].class = "Packet" /\ E.out[i].class = "Packet") =>
        \A k \in DOMAIN SpecOut[i] : E.out[i][k] = SpecOut[i][k]
=============================================================================
