INIT Init
NEXT Next
CONSTANTS
  Variant = 1
  MaxRead = 1023
  Sizes = {}
INVARIANTS FramesValid Seg EmitOnce
CHECK_DEADLOCK FALSE
