----------------------------- MODULE MC_Terminal -----------------------------
(* C20: the configurations on which the simulator is run: every protocol      *)
(* version x phones of boundary lengths (1, 11, 12 digits; 13, 19, 20 for      *)
(* 2019), the all-zero phone, and phones chosen so that the checksum of the    *)
(* header template the simulator builds is 7E and 7D (the manual escaping in   *)
(* WithHeader) x every default command.  TLC checks on the specification that  *)
(* the frame such a terminal must produce is well formed and decodes to the    *)
(* same fields (SimFrameOk), and emits the configuration.                      *)
EXTENDS Frame, TLC, Json, CSV, IOUtils

Vers == {1, 2, 3}        \* 2011, 2013, 2019
Cmds == {1, 2, 256, 258, 512, 1796, 4099, 4613, 4614, 32769, 32771, 33024, 33028, 34817, 36867, 37121, 37122, 37377, 37381, 37382, 37383, 4624, 4625, 4626}
D(s) == s   \* phones are digit sequences
Phones13 == { <<7>>, <<1, 3, 8, 0, 0, 0, 0, 0, 0, 0, 1>>, <<1, 2, 3, 4, 5, 6, 7, 8, 9, 0, 1, 2>>, <<0>>, <<0, 0, 0, 0, 0, 0, 0, 0, 0, 0, 0, 0>>,
              <<7, 8, 0, 4>>, <<7, 8, 0, 7>>, <<9, 9, 9, 9, 9, 9, 9, 9, 9, 9, 9, 9>> }     \* 7804 / 7807: template checksum 7E / 7D
Phones19 == Phones13 \cup { <<1, 2, 3, 4, 5, 6, 7, 8, 9, 0, 1, 2, 3>>, <<1, 2, 3, 4, 5, 6, 7, 8, 9, 0, 1, 2, 3, 4, 5, 6, 7, 8, 9>>,
                            <<1, 2, 3, 4, 5, 6, 7, 8, 9, 0, 1, 2, 3, 4, 5, 6, 7, 8, 9, 0>>, <<3, 8, 0, 2>>, <<3, 8, 0, 1>>,
                            \* twenty digits beyond 2^64 - 1 = 18446744073709551615 (a phone is a digit string, not a machine integer)
                            <<1, 8, 4, 4, 6, 7, 4, 4, 0, 7, 3, 7, 0, 9, 5, 5, 1, 6, 1, 6>>, [i \in 1..20 |-> 9] }
Pad(d, n) == [i \in 1..(n - Len(d)) |-> 0] \o d
Bcd(d) == [i \in 1..(Len(d) \div 2) |-> d[2 * i - 1] * 16 + d[2 * i]]
PhoneBytes(ver, d) == Bcd(Pad(d, IF ver = 3 THEN 20 ELSE 12))

VARIABLES ver, phone, cmd
Init == ver \in Vers /\ phone \in (IF ver = 3 THEN Phones19 ELSE Phones13) /\ cmd \in Cmds
Next == FALSE /\ UNCHANGED <<ver, phone, cmd>>

\* what a terminal with this configuration must put on the wire for its k-th frame with body b
SimFrame(k, b) == TerminalFrame([id |-> cmd, rsv15 |-> 0, ver |-> IF ver = 3 THEN 1 ELSE 0, frag |-> 0, enc3 |-> 0, verbyte |-> 1,
                                 phone |-> PhoneBytes(ver, phone), serial |-> k % 65536, total |-> 0, no |-> 0, body |-> b])
SimFrameOk == \A k \in {1, 126, 125, 65535, 65536} : \A b \in {<<>>, <<126, 125>>} :
    LET d == Decode(SimFrame(k, b)) IN
    d.ok /\ d.id = cmd /\ d.serial = k % 65536 /\ d.body = b /\ Transparent(SimFrame(k, b)) /\ WellFormed(SimFrame(k, b))
Emit == CSVWrite("%1$s", <<ToJson([ver |-> ver, phone |-> phone, cmd |-> cmd])>>, IOEnv.VERIF_OUT)
=============================================================================
