INIT Init
NEXT Next
CONSTANTS
  D = "JS"
  NFiles = 1
  MaxChunk = 2
  MaxSteps = 7
  MaxDup = 1
  Record = TRUE
  Ver = 0
INVARIANTS OneObsPerUnit CompleteIffAll ControlAnswered ReportExact Emit
CHECK_DEADLOCK FALSE
