------------------------------ MODULE MC_Layouts ------------------------------
(* C07: for every specified type, values are enumerated field by field: a base  *)
(* value, every variant of every field with the others at base, and uniform     *)
(* variants; lists of 0..MaxList items.  RT1 / RT2 are checked on the           *)
(* specification and every (type, value, bytes) is emitted for replay through   *)
(* the real Encode / Parse.                                                     *)
EXTENDS Layouts, Json, CSV, IOUtils
CONSTANTS MaxList

\* variants of a scalar of width w: zeros, 00..01, escape bytes, all FF, position coded
UVar(w) == << [i \in 1..w |-> 0], [i \in 1..w |-> IF i = w THEN 1 ELSE 0], [i \in 1..w |-> IF i % 2 = 1 THEN 125 ELSE 126],
              [i \in 1..w |-> 255], [i \in 1..w |-> 16 * i + i], [i \in 1..w |-> 128], [i \in 1..w |-> IF i = 1 THEN 1 ELSE 104] >>   \* .. sign bits; 360 in two bytes
BcdVar == << <<36, 16, 1, 35, 89, 89>>, <<0, 1, 1, 0, 0, 0>>, <<153, 18, 49, 0, 0, 1>>, <<37, 2, 40, 18, 0, 48>>, <<32, 7, 7, 25, 35, 89>>,
             <<105, 18, 49, 35, 89, 89>>, <<112, 1, 1, 0, 0, 0>> >>                          \* years 69 / 70: two-digit-year pivots
StrVar == << <<>>, <<65>>, <<49, 50, 55, 46, 48, 46, 48, 46, 49>>, <<126, 125, 32, 47>>, [i \in 1..40 |-> 96 + (i % 26)],
             <<49, 50, 51>> \o [i \in 1..24 |-> 0], [i \in 1..255 |-> 65 + (i % 26)] >>        \* NUL padding inside a counted string; the longest counted string
RestVar == << <<>>, <<1>>, <<126, 125, 0, 255>>, <<48, 49, 99, 100>>, [i \in 1..30 |-> i], <<0, 0, 0>>, [i \in 1..300 |-> i % 251] >>
TextVar(mx) == << <<>>, <<65>>, Mat([i \in 1..(IF mx < 8 THEN mx ELSE 8) |-> 48 + i]), Mat([i \in 1..mx |-> 64 + i]), <<126, 125>>,
                  <<32>>, Mat([i \in 1..(mx \div 2) |-> 97 + i]) >>
FStrVar(w) == << <<>>, <<65>>, Mat([i \in 1..w |-> 48 + (i % 10)]), (IF w >= 2 THEN <<126, 125>> ELSE <<126>>), Mat([i \in 1..(w \div 2) |-> 97 + (i % 26)]),
                 Mat([i \in 1..(w - 1) |-> 66]), <<32>> >>
NVariants == 7

\* list lengths: 0..MaxList for the ordinary variants; the long variants sit at the boundaries of narrow index arithmetic
\* (127 / 128 signed byte, 255 the largest one-byte count, 256 where the count field is wider)
IsListy(f) == f.k \in {"ulist", "optulist", "list", "items"}
NLong == 5      \* four long lists and one list whose records continue one another
Count(f, var) == IF var <= NVariants THEN (var - 1) % (MaxList + 1)
                 ELSE LET wide == f.k = "items" \/ f.cw > 1 IN <<127, 128, 255, IF wide THEN 256 ELSE 254, 3>>[var - NVariants]
RECURSIVE ValueOf(_, _, _)
RECURSIVE Variant(_, _)
RECURSIVE Fix(_, _)
\* the progression variant: every number of record i is 4 * i, so that for (offset, length) pairs the second record starts
\* exactly where the first ends - records that look mergeable are still separate records
IsProg(var) == var = NVariants + NLong
ProgItem(item, i) == [n \in {item[j].n : j \in 1..Len(item)} |->
                        LET f == item[CHOOSE j \in 1..Len(item) : item[j].n = n] IN
                        IF f.k = "u" THEN Mat([j \in 1..f.w |-> IF j = f.w THEN (4 * i) % 256 ELSE IF j = f.w - 1 THEN ((4 * i) \div 256) % 256 ELSE 0]) ELSE Variant(f, 2)]
\* value of layout L where the field at (flat) position pick gets variant var, all others variant base
Variant(f, var) == CASE f.k = "u" -> UVar(f.w)[var] [] f.k = "raw" -> UVar(f.w)[var] [] f.k = "bcd" -> BcdVar[var]
                     [] f.k = "lstr" -> (IF "min" \in DOMAIN f /\ Len(StrVar[var]) < f.min THEN StrVar[2] ELSE StrVar[var]) [] f.k = "rest" -> RestVar[var]
                     [] f.k = "fstr" -> FStrVar(f.w)[var] [] f.k = "trest" -> TextVar(f.mx)[var] [] f.k = "reclen" -> UVar(f.w)[1]
                     [] f.k = "items" -> LET c == Count(f, var) IN
                                         Mat([i \in 1..(IF c < f.min THEN f.min ELSE c) |-> ValueOf(f.item, 0, ((var + i) % NVariants) + 1)])
                     [] f.k \in {"ulist", "optulist"} -> Mat([i \in 1..Count(f, var) |-> UVar(f.w)[((var + i) % NVariants) + 1]])
                     [] f.k = "list" -> Mat([i \in 1..Count(f, var) |-> IF IsProg(var) THEN ProgItem(f.item, i) ELSE ValueOf(f.item, 0, ((var + i) % NVariants) + 1)])
ValueOf(L, pick, var) == TLCEval(
    [n \in {L[i].n : i \in 1..Len(L)} |->
        LET i == CHOOSE j \in 1..Len(L) : L[j].n = n IN Variant(L[i], IF pick = 0 \/ pick = i THEN var ELSE 1)])
\* derived fields (separate counts, record lengths) are made consistent with what they describe
Fix(L, v) ==
    LET fld(n) == CHOOSE i \in 1..Len(L) : L[i].n = n
        v1 == TLCEval([n \in DOMAIN v |-> IF L[fld(n)].k \in {"items", "list"}
                                   THEN Mat([j \in 1..Len(v[n]) |-> Fix(L[fld(n)].item, v[n][j])]) ELSE v[n]])
        v2 == TLCEval([n \in DOMAIN v1 |-> IF \E i \in 1..Len(L) : L[i].k = "items" /\ L[i].cn = n
                                    THEN UBytes(Len(v1[L[CHOOSE i \in 1..Len(L) : L[i].k = "items" /\ L[i].cn = n].n]), L[fld(n)].w) ELSE v1[n]])
    IN TLCEval([n \in DOMAIN v2 |-> IF L[fld(n)].k = "reclen" THEN UBytes(Len(Enc(SubSeq(L, fld(n) + 1, Len(L)), v2)), L[fld(n)].w) ELSE v2[n]])

\* ---- terminal parameter sets: every table id alone, reserved / vendor ids, neighbours in pairs, everything at once
ParamContentOf(id) == LET w == ParamWidth(id) IN
                      IF w = 0 THEN (IF id \in KnownIds THEN <<97, 98, 49, 46>> ELSE <<1, 2, 3>>)
                      ELSE [i \in 1..w |-> (id + 16 * i) % 256]
Prm(id) == [id |-> id, b |-> ParamContentOf(id), known |-> id \in KnownIds]
ExtraIds == {42, 43, 8, 61440}                  \* 0x002A / 0x002B reserved, 0x0008, 0xF000
ParamSets == {{Prm(id)} : id \in KnownIds \cup ExtraIds}
             \cup {{Prm(a), Prm(b)} : a \in {41, 42, 43}, b \in {44, 8, 272}}
             \cup {{Prm(id) : id \in KnownIds \cup ExtraIds}} \cup {{}}
             \* ids next to table ids that are not themselves in the table (each kept verbatim, side by side with its neighbour)
             \cup {{Prm(272), Prm(273)}, {Prm(273), Prm(274), Prm(511)}, {Prm(id) : id \in 256..288}, {Prm(id) : id \in 0..48},
                   {Prm(id) : id \in {117, 118, 119, 120, 121, 122, 123, 124, 125, 126, 127}}}

VARIABLES t, pick, var
Init == \/ t \in Types /\ pick = 0 /\ var = 1
        \/ t = "P0x8103" /\ pick \in 1..Cardinality(ParamSets) /\ var = 0
Next == /\ pick = 0 /\ var = 1 /\ t # "P0x8103"
        /\ \E p \in 0..Len(LayoutOf[t]), v \in 1..(NVariants + NLong) :
              /\ (p > 0 \/ v > 1) /\ (v > NVariants => p > 0 /\ IsListy(LayoutOf[t][p])) /\ pick' = p /\ var' = v
        /\ UNCHANGED t

IsParams == t = "P0x8103"
PSet == SetToSeq(ParamSets)[pick]
L == IF IsParams THEN <<>> ELSE LayoutOf[t]
V == IF IsParams THEN <<>> ELSE Fix(L, ValueOf(L, pick, var))
RoundTrips == IsParams \/ (RT1(L, V) /\ RT2(L, Enc(L, V)))
\* a flattened description of the value for the bridge: fields in wire order with kind, bytes / items
RECURSIVE Describe(_, _)
Describe(lay, v) == Mat([i \in 1..Len(lay) |->
    LET f == lay[i] IN
    CASE f.k \in {"u", "raw", "bcd", "rest", "fstr"} -> [n |-> f.n, k |-> f.k, b |-> v[f.n]]
      [] f.k = "trest" -> [n |-> f.n, k |-> "rest", b |-> v[f.n]]
      [] f.k = "reclen" -> [n |-> f.n, k |-> "u", b |-> v[f.n]]
      [] f.k = "items" -> [n |-> f.n, k |-> "items", items |-> Mat([j \in 1..Len(v[f.n]) |-> Describe(f.item, v[f.n][j])])]
      [] f.k = "lstr" -> [n |-> f.n, k |-> f.k, ln |-> f.ln, b |-> v[f.n]]
      [] f.k \in {"ulist", "optulist"} -> [n |-> f.n, k |-> "ulist", cn |-> f.cn, cw |-> f.cw, items |-> v[f.n]]
      [] f.k = "list" -> [n |-> f.n, k |-> f.k, cn |-> f.cn, cw |-> f.cw, items |-> Mat([j \in 1..Len(v[f.n]) |-> Describe(f.item, v[f.n][j])])]])
Emit == IF IsParams
        THEN CSVWrite("%1$s", <<ToJson([type |-> t, params |-> Ordered(PSet), fields |-> <<>>, body |-> Body8103(PSet)])>>, IOEnv.VERIF_OUT)
        ELSE CSVWrite("%1$s", <<ToJson([type |-> t, fields |-> Describe(L, V), body |-> Enc(L, V)])>>, IOEnv.VERIF_OUT)
=============================================================================
