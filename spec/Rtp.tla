-------------------------------- MODULE Rtp --------------------------------
(* JT/T 1078 RTP packet (table 19): 16-byte fixed prefix, 8-byte timestamp  *)
(* unless the data type is 0100 (transparent), two 2-byte frame intervals   *)
(* only for video frames (types 0000..0010), 2-byte payload length, payload.*)
(* Reserved data types 5..15 are laid out like audio.                       *)
EXTENDS Bytes

Marker == <<48, 49, 99, 100>>          \* 0x30 0x31 0x63 0x64

HasTimestamp(dt) == dt # 4
HasIntervals(dt) == dt \in {0, 1, 2}
HeaderLen(dt) == 16 + (IF HasTimestamp(dt) THEN 8 ELSE 0) + (IF HasIntervals(dt) THEN 4 ELSE 0) + 2

\* DecodeOne(b).class \in {"Short", "Unqualified", "Packet"}
DecodeOne(b) ==
    IF Len(b) < 16 THEN [class |-> "Short"]
    ELSE IF Sub(b, 1, 4) # Marker THEN [class |-> "Unqualified"]
    ELSE LET dt == b[16] \div 16
             H  == HeaderLen(dt)
         IN IF Len(b) < H THEN [class |-> "Short"]
            ELSE LET n  == BE16(b[H - 1], b[H])
                     io == IF HasTimestamp(dt) THEN 24 ELSE 16      \* bytes before the intervals
                 IN IF Len(b) < H + n THEN [class |-> "Short"]
                    ELSE [class |-> "Packet",
                          v |-> b[5] \div 64, p |-> (b[5] \div 32) % 2, x |-> (b[5] \div 16) % 2, cc |-> b[5] % 16,
                          m |-> b[6] \div 128, pt |-> b[6] % 128,
                          seq |-> BE16(b[7], b[8]), sim |-> PhoneDigits(Sub(b, 9, 14)), channel |-> b[15],
                          dt |-> dt, mark |-> b[16] % 16,
                          ts |-> IF HasTimestamp(dt) THEN Sub(b, 17, 24) ELSE <<0, 0, 0, 0, 0, 0, 0, 0>>,
                          ival1 |-> IF HasIntervals(dt) THEN BE16(b[io + 1], b[io + 2]) ELSE 0,
                          ival2 |-> IF HasIntervals(dt) THEN BE16(b[io + 3], b[io + 4]) ELSE 0,
                          blen |-> n, payload |-> Sub(b, H + 1, H + n), rest |-> Drop(b, H + n)]

\* repeatedly decode from the front; ends with the class of the first non-packet, or "End"
RECURSIVE Loop(_)
Loop(b) == IF Len(b) = 0 THEN <<[class |-> "End"]>>
           ELSE LET r == DecodeOne(b) IN
                IF r.class # "Packet" THEN <<[class |-> r.class]>> ELSE <<r>> \o Loop(r.rest)

\* encoder side (what a terminal sends), used by generators: d is a descriptor
\* [a5, a6, seq, sim (6 bytes), channel, dt, mark, ts (8 bytes), ival1, ival2, payload]
Encode(d) == Marker \o <<d.a5, d.a6>> \o U16(d.seq) \o d.sim \o <<d.channel, d.dt * 16 + d.mark>>
             \o (IF HasTimestamp(d.dt) THEN d.ts ELSE <<>>)
             \o (IF HasIntervals(d.dt) THEN U16(d.ival1) \o U16(d.ival2) ELSE <<>>)
             \o U16(Len(d.payload)) \o d.payload
=============================================================================
