----------------------------- MODULE Trace_Helpers -----------------------------
(* C07, the helper operators the message types are built from, validated on    *)
(* values produced by the real functions: BCD time <-> text (the formatted     *)
(* 6-byte form), BCD phone rendering, fixed-width padding, GBK <-> UTF-8 (the   *)
(* law only: GBK tables are not expressible here).                             *)
EXTENDS Bytes, TLC, Json, IOUtils
Trace == ndJsonDeserialize(IOEnv.VERIF_TRACE)
VARIABLE l
Init == l = 0
Next == l = 0 /\ l' \in 1..Len(Trace)
E == Trace[l]
D(n) == 48 + n
\* "20YY-MM-DD hh:mm:ss" from 6 BCD bytes
TimeText(b) == <<50, 48, D(b[1] \div 16), D(b[1] % 16), 45, D(b[2] \div 16), D(b[2] % 16), 45, D(b[3] \div 16), D(b[3] % 16), 32,
                 D(b[4] \div 16), D(b[4] % 16), 58, D(b[5] \div 16), D(b[5] % 16), 58, D(b[6] \div 16), D(b[6] % 16)>>
Pad(s, w) == IF Len(s) >= w THEN Sub(s, 1, w) ELSE s \o [i \in 1..(w - Len(s)) |-> 0]
BcdTime == l = 0 \/ E.ev # "bcdtime" \/ (Mat(E.text) = TimeText(E.bcd) /\ Mat(E.back) = Mat(E.bcd))
Bcd2Dec == l = 0 \/ E.ev # "bcd2dec" \/ Mat(E.digits) = Mat(PhoneDigits(E.bcd))
Fill == l = 0 \/ E.ev # "fill" \/ Mat(E.out) = Mat(Pad(E.text, E.w))
GbkLaw == l = 0 \/ E.ev # "gbk" \/ Mat(E.back) = Mat(E.utf8)
=============================================================================
