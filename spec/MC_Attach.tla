------------------------------ MODULE MC_Attach ------------------------------
(* C15 / C16 at unit level: a terminal announces files (0x1210), and for    *)
(* each file sends 0x1211, chunks (any disjoint split, any order, exact     *)
(* resends, two files interleaved), 0x1212 (possibly early, then resupplies *)
(* and asks again).  Every unit travels through the wire encoders, Demux    *)
(* and Apply.  Ghost variables record what the terminal really sent; the    *)
(* invariants compare the session's observable verdicts with them.          *)
(* With Record = TRUE the behaviour is kept as a script and emitted at      *)
(* terminal states for replay on the real attachment connection.            *)
EXTENDS Attach, Json, CSV, IOUtils

CONSTANTS D, NFiles, MaxChunk, MaxSteps, MaxDup, Record, Ver

FileNames == << <<97, 46, 106, 112, 103>>,                 \* "a.jpg"
                <<48, 49, 99, 100, 95, 98>> >>              \* "01cd_b": the chunk marker inside a name
Contents  == << <<11, 12, 13, 14>>, <<126, 125, 33>> >>    \* second file holds frame specials
Alarm     == <<65, 48, 49, 99, 100, 66>>                   \* alarm id containing the marker bytes
Hdr == [ver |-> Ver, phone |-> IF Ver = 1 THEN <<0, 0, 0, 0, 1, 56, 0, 0, 0, 1>> ELSE <<1, 56, 0, 0, 0, 1>>]
F == 1..NFiles
Items == [i \in F |-> [name |-> FileNames[i], size |-> Len(Contents[i])]]

VARIABLES srv,     \* session state (Attach!InitSession ...)
          phase,   \* "start" | "run"
          sent,    \* sent[i] : set of <<off, len>> pieces of file i sent so far (ghost)
          ann,     \* ann[i]  : 0x1211 sent
          fin,     \* fin[i]  : TRUE once a 0x1212 for i was answered 'complete'
          dups, steps, tser, nctl,   \* nctl: control frames sent so far (ghost)
          last,    \* observation of the unit just processed
          script   \* history (only when Record)
vars == <<srv, phase, sent, ann, fin, dups, steps, tser, nctl, last, script>>

GhostCovered(i) == UNION {p[1]..(p[1] + p[2] - 1) : p \in sent[i]}
GhostAll(i) == GhostCovered(i) = 0..(Len(Contents[i]) - 1)

Feed(bytes, what) ==
    LET r == Drain(D, srv, bytes, <<>>) IN
    /\ srv' = r.s
    /\ last' = [what |-> what, obs |-> r.obs, left |-> r.hist]
    /\ script' = IF Record THEN Append(script, [bytes |-> bytes, what |-> what, obs |-> r.obs]) ELSE script
    /\ steps' = steps + 1
    /\ tser' = tser + 1
    /\ nctl' = IF what = "chunk" THEN nctl ELSE nctl + 1

Init == /\ srv = InitSession /\ phase = "start" /\ sent = [i \in F |-> {}] /\ ann = [i \in F |-> FALSE]
        /\ fin = [i \in F |-> FALSE] /\ dups = 0 /\ steps = 0 /\ tser = 0 /\ nctl = 0
        /\ last = [what |-> "none", obs |-> <<>>, left |-> <<>>] /\ script = <<>>

Send1210 == /\ phase = "start" /\ phase' = "run"
            /\ Feed(Control(Hdr, 4624, tser, Body1210(D, Alarm, Items)), "1210")
            /\ UNCHANGED <<sent, ann, fin, dups>>
Send1211(i) == /\ phase = "run" /\ ~ann[i] /\ ann' = [ann EXCEPT ![i] = TRUE]
               /\ Feed(Control(Hdr, 4625, tser, Body1211(FileNames[i], 0, Len(Contents[i]))), "1211")
               /\ UNCHANGED <<phase, sent, fin, dups>>
Pieces(i) == {<<o, n>> : o \in 0..(Len(Contents[i]) - 1), n \in 1..MaxChunk} 
Fits(i, p) == p[1] + p[2] <= Len(Contents[i])
Disjoint(i, p) == (p[1]..(p[1] + p[2] - 1)) \cap GhostCovered(i) = {}
SendChunk(i, p) ==
    /\ phase = "run" /\ ann[i] /\ ~fin[i] /\ Fits(i, p)
    /\ \/ Disjoint(i, p) /\ dups' = dups
       \/ p \in sent[i] /\ dups < MaxDup /\ dups' = dups + 1            \* exact resend
    /\ sent' = [sent EXCEPT ![i] = @ \cup {p}]
    /\ Feed(ChunkBytes(D, FileNames[i], p[1], Sub(Contents[i], p[1] + 1, p[1] + p[2])), "chunk")
    /\ UNCHANGED <<phase, ann, fin>>
Send1212(i) ==
    /\ phase = "run" /\ ann[i] /\ ~fin[i] /\ sent[i] # {}
    /\ fin' = [fin EXCEPT ![i] = GhostAll(i)]
    /\ Feed(Control(Hdr, 4626, tser, Body1211(FileNames[i], 0, Len(Contents[i]))), "1212")
    /\ UNCHANGED <<phase, sent, ann, dups>>

Next == /\ steps < MaxSteps
        /\ \/ Send1210
           \/ \E i \in F : Send1211(i) \/ Send1212(i) \/ \E p \in Pieces(i) : SendChunk(i, p)

----------------------------------------------------------------------------
FileOfName(n) == CHOOSE i \in F : FileNames[i] = n
\* every unit is consumed whole and yields exactly one observation; nothing is left buffered
OneObsPerUnit == last.what # "none" => Len(last.obs) = 1 /\ last.left = <<>> /\ srv.alive
\* C15: a file is reported complete exactly when every byte has arrived, with the original content
CompleteIffAll == last.what = "chunk" =>
    LET o == last.obs[1] i == FileOfName(o.name) IN
    /\ o.kind = "chunk" /\ o.complete = GhostAll(i)
    /\ o.complete => o.content = Contents[i]
\* C15: control frames are recognised even though name / alarm id contain the marker, answered once
ControlAnswered == last.what \in {"1210", "1211", "1212"} =>
    LET o == last.obs[1] r == Decode(o.reply) IN
    /\ o.kind = "control" /\ r.ok /\ r.serial = nctl - 1 /\ r.phone = Hdr.phone /\ r.ver = Hdr.ver
    /\ r.id = (IF last.what = "1212" THEN 37394 ELSE 32769)
\* C16: the completion report names exactly the missing ranges
ReportExact == last.what = "1212" =>
    LET o == last.obs[1] i == FileOfName(o.name)
        segs == MissSegments(srv.files[o.name].got, Len(Contents[i])) IN
    /\ o.complete = GhostAll(i)
    /\ MissExact(segs, [p \in {q[1] : q \in sent[i]} |-> (CHOOSE q \in sent[i] : q[1] = p)[2]], Len(Contents[i]))
    /\ Decode(o.reply).body = Body9212(o.name, 0, segs)
    /\ (segs = <<>>) = GhostAll(i)

Terminal == steps = MaxSteps \/ (phase = "run" /\ \A i \in F : fin[i])
Emit == (Record /\ Terminal) =>
          CSVWrite("%1$s", <<ToJson([dialect |-> D, units |-> script])>>, IOEnv.VERIF_OUT)
View == <<srv, phase, sent, ann, fin, dups, steps, nctl, last>>
=============================================================================
