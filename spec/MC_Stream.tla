------------------------------ MODULE MC_Stream ------------------------------
(* C04 on the specification: a fixed stream of valid frames is cut into      *)
(* consecutive reads in every possible way (read sizes 1..MaxRead or a given *)
(* size set).  Seg: after any prefix, exactly the frames whose closing       *)
(* delimiter has arrived have been delivered, in order, and the buffer holds *)
(* exactly the unconsumed tail.                                              *)
EXTENDS Extract, Json, CSV, IOUtils
CONSTANTS Variant, MaxRead, Sizes      \* Sizes = {} means every size 1..MaxRead

P6  == <<1, 56, 0, 0, 0, 1>>
P10 == <<0, 0, 0, 0, 1, 56, 0, 0, 0, 1>>
Fr(id, ver, phone, serial, body) ==
    TerminalFrame([id |-> id, rsv15 |-> 0, ver |-> ver, frag |-> 0, enc3 |-> 0, verbyte |-> 1, phone |-> phone,
                   serial |-> serial, total |-> 0, no |-> 0, body |-> body])
\* a frame whose checksum is 7D, sent raw (the tolerated deviation): "... 7D 7E" followed by the next "7E"
Raw7D == LET x == [id |-> 2, rsv15 |-> 0, ver |-> 0, frag |-> 0, enc3 |-> 0, verbyte |-> 1, phone |-> P6,
                   serial |-> 5, total |-> 0, no |-> 0, body |-> <<0>>]
             c == XorAll(HeaderBytes(x, 1) \o <<0>>)
         IN FramedRaw7D(Payload([x EXCEPT !.body = <<c ^^ 125>>]))
Long(n) == [i \in 1..n |-> IF i % 3 = 0 THEN 126 ELSE IF i % 3 = 1 THEN 125 ELSE i % 256]
Frames ==
    CASE Variant = 1 -> << Fr(2, 0, P6, 1, <<>>), Fr(512, 1, P10, 2, <<126, 125, 1, 2>>), Fr(2, 0, P6, 3, <<>>) >>
      [] Variant = 2 -> << Fr(258, 0, P6, 65535, <<65, 66>>), Raw7D, Fr(2, 1, P10, 0, <<>>), Fr(512, 0, P6, 126, <<125, 2, 126, 126>>) >>
      [] Variant = 3 -> << Fr(512, 0, P6, 9, Long(700)), Fr(2, 0, P6, 10, <<>>), Fr(512, 1, P10, 11, Long(1023)) >>
Stream == Concat(Frames)
Ends == [k \in 0..Len(Frames) |-> Len(Concat(SubSeq(Frames, 1, k)))]

VARIABLES pos, x, out, bad
Init == pos = 0 /\ x = InitX /\ out = <<>> /\ bad = FALSE
ReadSizes == IF Sizes = {} THEN 1..MaxRead ELSE Sizes
Next == \E k \in ReadSizes :
          /\ pos + k <= Len(Stream)
          /\ LET r == Feed(x, SubSeq(Stream, pos + 1, pos + k)) IN
             /\ pos' = pos + k /\ x' = r.x /\ bad' = (bad \/ r.err \/ r.rereq # {})
             /\ out' = out \o [i \in 1..Len(r.out) |-> r.out[i].raw]

Whole == Cardinality({k \in 1..Len(Frames) : Ends[k] <= pos})
Seg == /\ out = SubSeq(Frames, 1, Whole)
       /\ x.hist = SubSeq(Stream, Ends[Whole] + 1, pos)
       /\ ~bad
FramesValid == \A k \in 1..Len(Frames) : Decode(Frames[k]).ok /\ NoInteriorFlag(Frames[k])
EmitOnce == pos = 0 => CSVWrite("%1$s", <<ToJson([frames |-> Frames])>>, IOEnv.VERIF_OUT)
=============================================================================
