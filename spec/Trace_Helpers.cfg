INIT Init
NEXT Next
INVARIANTS BcdTime Bcd2Dec Fill GbkLaw
CHECK_DEADLOCK FALSE
