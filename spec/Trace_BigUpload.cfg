INIT Init
NEXT Next
INVARIANTS NoCrash FirstReport ResentWasListed FinalComplete ContentExact
CHECK_DEADLOCK FALSE
