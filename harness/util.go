package main

import (
	"bufio"
	"encoding/json"
	"fmt"
	"math/rand"
	"os"
	"strconv"
)

// B is a byte string that travels as a JSON array of 0..255 (the TLA+ side's sequences).
type B []byte

func (b B) MarshalJSON() ([]byte, error) {
	out := make([]byte, 0, 2+4*len(b))
	out = append(out, '[')
	for i, v := range b {
		if i > 0 {
			out = append(out, ',')
		}
		out = strconv.AppendInt(out, int64(v), 10)
	}
	return append(out, ']'), nil
}

func (b *B) UnmarshalJSON(data []byte) error {
	var xs []int
	if err := json.Unmarshal(data, &xs); err != nil {
		return err
	}
	*b = make([]byte, len(xs))
	for i, v := range xs {
		(*b)[i] = byte(v)
	}
	return nil
}

// readND reads a file of JSON lines; lines written by TLC's CSVWrite are TLA-quoted strings.
func readND(path string, each func(i int, raw []byte) error) error {
	f, err := os.Open(path)
	if err != nil {
		return err
	}
	defer f.Close()
	sc := bufio.NewScanner(f)
	sc.Buffer(make([]byte, 1<<20), 64<<20)
	i := 0
	for sc.Scan() {
		line := sc.Bytes()
		if len(line) == 0 {
			continue
		}
		if line[0] == '"' {
			var s string
			if err := json.Unmarshal(line, &s); err != nil {
				return fmt.Errorf("line %d: %w", i, err)
			}
			line = []byte(s)
		}
		if err := each(i, line); err != nil {
			return err
		}
		i++
	}
	return sc.Err()
}

type ndWriter struct {
	f *os.File
	w *bufio.Writer
	n int
}

func newND(path string) *ndWriter {
	f, err := os.Create(path)
	if err != nil {
		die(err)
	}
	return &ndWriter{f: f, w: bufio.NewWriterSize(f, 1<<20)}
}
func (n *ndWriter) put(v any) {
	b, err := json.Marshal(v)
	if err != nil {
		die(err)
	}
	n.w.Write(b)
	n.w.WriteByte('\n')
	n.n++
}
func (n *ndWriter) close() { n.w.Flush(); n.f.Close() }

func die(v ...any) {
	fmt.Fprintln(os.Stderr, v...)
	os.Exit(2)
}

func seed() int64 {
	s, err := strconv.ParseInt(os.Getenv("VERIF_SEED"), 10, 64)
	if err != nil {
		return 1
	}
	return s
}

func newRand(salt int64) *rand.Rand { return rand.New(rand.NewSource(seed()*1000003 + salt)) }

func atoi(s string) int {
	n, err := strconv.Atoi(s)
	if err != nil {
		die("bad number", s)
	}
	return n
}

// exact returns a copy of b whose capacity equals its length (over-reads past len then fault
// or at least cannot see neighbouring data).
func exact(b []byte) []byte {
	c := make([]byte, len(b))
	copy(c, b)
	return c[:len(b):len(b)]
}

// protect runs f and converts a panic into an error string.
func protect(f func()) (p string) {
	defer func() {
		if r := recover(); r != nil {
			p = fmt.Sprint(r)
		}
	}()
	f()
	return ""
}

// result lines written by replayers: a mismatch between spec and implementation
type mismatch struct {
	Sig    string `json:"sig"`
	Detail string `json:"detail"`
	Case   any    `json:"case"`
}

type summary struct {
	Summary  bool           `json:"summary"`
	Cases    int            `json:"cases"`
	Distinct int            `json:"distinct"`
	Classes  map[string]int `json:"classes,omitempty"`
	Samples  []any          `json:"samples,omitempty"`
}

func jsonUnmarshal(raw []byte, v any) error { return json.Unmarshal(raw, v) }
