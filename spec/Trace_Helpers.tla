----------------------------- MODULE Trace_Helpers -----------------------------
(* C07, the helper operators the message types are built from, validated on    *)
(* values produced by the real functions: BCD time <-> text (the formatted     *)
(* 6-byte form), BCD phone rendering, fixed-width padding, GBK <-> UTF-8 (the   *)
(* round-trip law, agreement with the reference tables, and the structure of a  *)
(* GBK string: the tables themselves are not transcribed).                      *)
EXTENDS Bytes, TLC, Json, IOUtils
Trace == ndJsonDeserialize(IOEnv.VERIF_TRACE)
VARIABLE l
Init == l = 0
Next == l = 0 /\ l' \in 1..Len(Trace)
E == Trace[l]
D(n) == 48 + n
\* "20YY-MM-DD hh:mm:ss" from 6 BCD bytes
TimeText(b) == <<50, 48, D(b[1] \div 16), D(b[1] % 16), 45, D(b[2] \div 16), D(b[2] % 16), 45, D(b[3] \div 16), D(b[3] % 16), 32,
                 D(b[4] \div 16), D(b[4] % 16), 58, D(b[5] \div 16), D(b[5] % 16), 58, D(b[6] \div 16), D(b[6] % 16)>>
Pad(s, w) == IF Len(s) >= w THEN Sub(s, 1, w) ELSE s \o [i \in 1..(w - Len(s)) |-> 0]
BcdTime == l = 0 \/ E.ev # "bcdtime" \/ (Mat(E.text) = TimeText(E.bcd) /\ Mat(E.back) = Mat(E.bcd))
Bcd2Dec == l = 0 \/ E.ev # "bcd2dec" \/ Mat(E.digits) = Mat(PhoneDigits(E.bcd))
Fill == l = 0 \/ E.ev # "fill" \/ Mat(E.out) = Mat(Pad(E.text, E.w))
\* UTF-8 code points and GBK code units (00..7F and 80 single, lead 81..FE + trail 40..FE except 7F), as index sets of their first bytes
PLen(b) == IF b < 128 THEN 1 ELSE IF b < 224 THEN 2 ELSE IF b < 240 THEN 3 ELSE 4
ULen(b) == IF b <= 128 THEN 1 ELSE 2
RECURSIVE PStarts(_, _)
PStarts(s, i) == IF i > Len(s) THEN <<>> ELSE <<i>> \o PStarts(s, i + PLen(s[i]))
RECURSIVE UStarts(_, _)
UStarts(s, i) == IF i > Len(s) THEN <<>> ELSE <<i>> \o UStarts(s, i + ULen(s[i]))
GbkStructure(u, g) ==
    LET ps == PStarts(u, 1) us == UStarts(g, 1) IN
    /\ Len(ps) = Len(us)
    /\ \A k \in 1..Len(us) : LET i == us[k] j == ps[k] IN
          /\ (g[i] > 128 => i < Len(g) /\ g[i] # 255 /\ g[i + 1] >= 64 /\ g[i + 1] # 127 /\ g[i + 1] # 255)
          /\ (u[j] < 128 <=> g[i] < 128) /\ (u[j] < 128 => g[i] = u[j])
          /\ (g[i] = 128 <=> (j + 2 <= Len(u) /\ u[j] = 226 /\ u[j + 1] = 130 /\ u[j + 2] = 172))     \* the euro sign
GbkLaw == l = 0 \/ E.ev # "gbk" \/ (("heldsame" \notin DOMAIN E \/ E.heldsame) /\ Mat(E.back) = Mat(E.utf8) /\ Mat(E.gbk) = Mat(E.ref) /\ GbkStructure(Mat(E.utf8), Mat(E.gbk)))
=============================================================================
