package main

// C06 driver: seeded conversations of harness terminals against a live default-configuration
// server; the recorded events are validated per connection by spec/Trace_Conn.tla.

import (
	"bytes"
	"encoding/binary"
	"fmt"
	"math/rand"
	"sync"
	"sync/atomic"
	"time"
)

func asciiDigits(phoneBCD []byte) []byte { // the phone as the library renders it
	var out []byte
	for _, b := range phoneBCD {
		out = append(out, "0123456789abcdef"[b>>4], "0123456789abcdef"[b&15])
	}
	i := 0
	for i < len(out) && out[i] == '0' {
		i++
	}
	if i == len(out) {
		return out
	}
	return out[i:]
}

func randBytes(r *rand.Rand, n int) []byte {
	b := make([]byte, n)
	r.Read(b)
	return b
}

// convMessage returns (id, body) of a random terminal-originated message
var burstMode bool // only the message types whose reply depends on the body (handlers keep parse state)

func convMessage(r *rand.Rand, t *term) (int, []byte) {
	k := r.Intn(22)
	if burstMode {
		k = []int{7, 8, 10, 14, 15}[r.Intn(5)]
	}
	switch k {
	case 0, 1, 2:
		return 0x0002, nil
	case 3, 4:
		return 0x0200, randBytes(r, 28+r.Intn(40))
	case 5:
		return 0x0704, randBytes(r, 3+r.Intn(60))
	case 6: // register: body length decides 2011/2013 in the parser; the reply does not depend on it
		return 0x0100, randBytes(r, []int{25, 37, 45, 76, 90}[r.Intn(5)])
	case 7, 8: // authentication
		code := asciiDigits(t.phone)
		if r.Intn(2) == 0 {
			code = randBytes(r, 1+r.Intn(12))
		}
		if t.ver == 1 {
			b := append([]byte{byte(len(code))}, code...)
			b = append(b, randBytes(r, 15)...)
			b = append(b, randBytes(r, 20)...)
			if r.Intn(8) == 0 {
				b = b[:r.Intn(len(b))] // too short for its fixed fields: logged, not answered
			}
			return 0x0102, b
		}
		return 0x0102, code
	case 9:
		return 0x0800, randBytes(r, 8)
	case 10: // (a body shorter than the 36 fixed bytes does not parse: logged, answered with what the handler holds - see Replies)
		if !burstMode && r.Intn(6) == 0 {
			return 0x0801, randBytes(r, r.Intn(36))
		}
		return 0x0801, randBytes(r, 36+r.Intn(100))
	case 11: // (with no query outstanding it is ordinary traffic; the attribute block is 10 bytes, other lengths do not parse)
		return 0x1003, randBytes(r, []int{10, 10, 10, 0, 9, 11, 24}[r.Intn(7)])
	case 12:
		return 0x1005, randBytes(r, 16)
	case 13:
		return 0x1210, randBytes(r, 60+r.Intn(40))
	case 14, 15:
		name := randBytes(r, 1+r.Intn(20))
		b := append([]byte{byte(len(name))}, name...)
		b = append(b, byte(r.Intn(5)))
		b = binary.BigEndian.AppendUint32(b, r.Uint32())
		if !burstMode && r.Intn(6) == 0 { // a name length that does not fit the body
			b[0] = byte(int(b[0]) + 1 + r.Intn(5))
		}
		return []int{0x1211, 0x1212}[r.Intn(2)], b
	case 16: // responses: no reply
		return []int{0x0001, 0x0104, 0x0805, 0x1205, 0x1206}[r.Intn(5)], randBytes(r, 3+r.Intn(8))
	case 17: // platform ids sent by a terminal: handled, no reply
		return []int{0x8103, 0x8104, 0x8801, 0x9003, 0x9101, 0x9102, 0x9205, 0x9206, 0x9207, 0x9208}[r.Intn(10)], randBytes(r, r.Intn(20))
	case 18, 19: // unsupported ids
		return []int{0x0003, 0x0900, 0x0f01, 0x0705, 0x1234, 0x8001, 0x8100}[r.Intn(7)], randBytes(r, r.Intn(20))
	}
	return 0x0002, nil
}

func init() {
	// live-c06 <connections> <messages per connection> <trace file> [wrap]
	cmds["live-c06"] = func(a []string) {
		nconn, nmsg := atoi(a[0]), atoi(a[1])
		wrap := len(a) > 3 && a[3] == "wrap"
		burstMode = len(a) > 3 && a[3] == "burst"
		noFilter := len(a) > 3 && a[3] == "nofilter" // WithHasSubcontract(false): every part is a message of its own
		subpkgMode := len(a) > 3 && a[3] == "subpkg" // C05 live: mostly sub-packaged messages, parts also coalesced in one write
		l := startLive(liveOpts{traceTo: a[2], noFilter: noFilter})
		r := newRand(606)
		var wg sync.WaitGroup
		halfFrameConnections(l, 40)
		if !wrap && !burstMode && !noFilter {
			slowWriterBurst(l, 1)
			slowWriterBurst(l, 2)
		}
		if !wrap && !burstMode && !noFilter && !subpkgMode {
			wg.Add(1)
			go func() {
				defer wg.Done()
				stalledTransfer(l, nil)
			}()
			wg.Add(1)
			go func() {
				defer wg.Done()
				pausedReader(l)
			}()
		}
		for c := 0; c < nconn; c++ {
			ver := r.Intn(2)
			phone := randPhone(r, ver)
			phone[len(phone)-1] = byte(c%100/10<<4 | c%10) // distinct keys
			phone[len(phone)-2] = byte(c/100%100/10<<4 | c/100%10)
			if c == 1 {
				for i := range phone {
					phone[i] = 0 // the all-zero phone
				}
			}
			t := l.dial(phone, ver)
			seed := r.Int63()
			n := nmsg
			if wrap && c == 0 {
				n = 65540 // cross the platform serial wrap on one connection
			}
			wg.Add(1)
			go func(t *term, seed int64, n int) {
				defer wg.Done()
				rr := rand.New(rand.NewSource(seed))
				t.serial = []int{0, 65530, rr.Intn(65536)}[rr.Intn(3)] - 1
				if t.serial < 0 {
					t.serial = 65535
				}
				replies := int64(0)
				lastID, lastBody := 0, []byte(nil)
				for i := 0; i < n; i++ {
					if n > 1000 { // wrap run: heartbeats only, pipelined
						t.send(t.frame(0x0002, nil))
						if i%500 == 499 {
							t.waitRecv(int64(i+1), 20*time.Second)
						}
						continue
					}
					if subpkgMode && rr.Intn(4) != 0 {
						// two transfers of different ids, their parts interleaved and written two frames at a time: both may complete in one read
						ta, tb := 1+rr.Intn(4), 1+rr.Intn(3)
						var frames [][]byte
						mk := func(id, total, no int) []byte {
							return buildFrame(hdrSpec{id: id, serial: t.nextSerial(), ver: t.ver, verbyte: 1, frag: 1, total: total, no: no, phone: t.phone, body: randBytes(rr, 36+rr.Intn(40))})
						}
						pa, pb := rr.Perm(ta-1), rr.Perm(tb-1)
						frames = append(frames, mk(0x0801, ta, 1), mk(0x0704, tb, 1))
						for k := 0; k < len(pa) || k < len(pb); k++ {
							if k < len(pa) {
								frames = append(frames, mk(0x0801, ta, pa[k]+2))
							}
							if k < len(pb) {
								frames = append(frames, mk(0x0704, tb, pb[k]+2))
							}
						}
						for k := 0; k < len(frames); k += 2 {
							w := frames[k]
							if k+1 < len(frames) {
								w = append(append([]byte{}, w...), frames[k+1]...)
							}
							t.send(w)
						}
						continue
					}
					if !burstMode && rr.Intn(map[bool]int{true: 3, false: 10}[noFilter]) == 0 { // a sub-packaged message: counts once, when complete
						total := 1 + rr.Intn(4) // 1: a message sent as package 1 of 1
						id := []int{0x0801, 0x0200, 0x0704}[rr.Intn(3)]
						order := rr.Perm(total - 1)
						send := func(no int) {
							body := randBytes(rr, 20+rr.Intn(30)) // two parts always hold the 36-byte fixed part of 0x0801
							if noFilter || total == 1 {
								body = randBytes(rr, 36+rr.Intn(30)) // each part is answered from its own bytes
							}
							f := buildFrame(hdrSpec{id: id, serial: t.nextSerial(), ver: t.ver, verbyte: 1, frag: 1, total: total, no: no, phone: t.phone, body: body})
							t.send(f)
							if no > 1 && !noFilter && rr.Intn(4) == 0 { // the same part again (a retransmission): it counts once
								t.send(f)
							}
						}
						send(1)
						for _, k := range order {
							send(k + 2)
							if rr.Intn(3) == 0 { // an ordinary message in between
								t.send(t.frame(0x0002, nil))
							}
						}
						continue
					}
					id, body := convMessage(rr, t)
					if !burstMode && rr.Intn(10) == 0 {
						// a terminal that does not advance its serial number: the next frame carries the serial of the previous one
						// (each message is still answered from its own bytes)
						t.smu.Lock()
						t.serial = (t.serial + 65535) % 65536
						t.smu.Unlock()
						if rr.Intn(2) == 0 && lastID != 0 {
							id = lastID
							if id == 0x0801 || id == 0x0200 || id == 0x0704 {
								body = randBytes(rr, 36+rr.Intn(40))
							} else {
								_, body = id, lastBody
							}
						}
					}
					lastID, lastBody = id, body
					f := t.frame(id, body)
					if !burstMode && rr.Intn(15) == 0 {
						// a message whose header names another phone or uses the other header version: it is answered with its own
						// header fields, whatever the connection has carried so far
						oh := hdrSpec{id: id, serial: t.serial, ver: t.ver, verbyte: 1, phone: t.phone, body: body}
						if rr.Intn(2) == 0 {
							oh.ver = 1 - t.ver
							oh.phone = randPhone(rr, oh.ver)
						} else {
							oh.phone = randPhone(rr, t.ver)
						}
						f = buildFrame(oh)
					}
					if rr.Intn(4) == 0 { // coalesce with the next frame in one write
						id2, body2 := convMessage(rr, t)
						f = append(f, t.frame(id2, body2)...)
					}
					if rr.Intn(6) == 0 && len(f) > 4 { // or split inside
						k := 1 + rr.Intn(len(f)-1)
						t.send(f[:k])
						time.Sleep(time.Duration(rr.Intn(300)) * time.Microsecond)
						t.send(f[k:])
					} else {
						t.send(f)
					}
					_ = replies
				}
				if n <= 1000 && !burstMode {
					// once the connection is quiet: a message that is answered, followed in the same write by one that is not.
					// The reply comes without any further traffic.
					for k, last := 0, int64(-1); k < 40 && last != t.nrecv.Load(); k++ {
						last = t.nrecv.Load()
						time.Sleep(120 * time.Millisecond)
					}
					n0 := t.nrecv.Load()
					w := t.frame(0x0200, randBytes(rr, 28))
					w = append(w, t.frame(0x0001, []byte{0, 1, 0x81, 0x03, 0})...)
					t.send(w)
					ok := t.waitRecv(n0+1, 4*time.Second)
					l.rec.log(t.idx, "D", "assert", "ok", ok, "what", "ReplyWithheldUntilMoreTrafficArrives")
				}
				// sentinel: replies leave in order, so the sentinel's reply closes the conversation
				sent := t.frame(0x0002, nil)
				ser := t.serial
				t.send(sent)
				ok := false
				dl := time.After(30 * time.Second)
			wait:
				for {
					select {
					case fr := <-t.recvCh:
						dv, _ := decodeView(fr)
						if dv.Ok && dv.ID == 0x8001 && len(dv.Body) == 5 && int(dv.Body[0])<<8|int(dv.Body[1]) == ser && int(dv.Body[2])<<8|int(dv.Body[3]) == 2 {
							ok = true
							break wait
						}
					case <-dl:
						break wait
					}
				}
				time.Sleep(30 * time.Millisecond) // let the write callback of the last reply be stamped
				if ok {
					l.rec.log(t.idx, "D", "end")
				} else {
					l.rec.log(t.idx, "D", "sentinel_timeout")
				}
				t.close(false)
			}(t, seed, n)
		}
		wg.Wait()
		time.Sleep(100 * time.Millisecond)
		l.dump(a[2])
	}
}

func init() {
	// live-c06wrap <out>: 65540 heartbeats on one connection; the frames around the 16-bit wrap of the
	// platform serial (and the first ones) are recorded for spec/Trace_Serials.tla
	cmds["live-c06wrap"] = func(a []string) {
		l := startLive(liveOpts{})
		phone := []byte{0x01, 0x31, 0x00, 0x7d, 0x7e, 0x01}
		t := l.dial(phone, 0)
		const total = 65540
		t.serial = 65000 // the terminal's own serial wraps too
		type rec struct {
			I       int `json:"i"`
			TSerial int `json:"tserial"`
			Frame   B   `json:"frame"`
		}
		tser := make([]int, total+1)
		go func() {
			for i := 1; i <= total; i++ {
				f := t.frame(0x0002, nil)
				tser[i] = t.serial
				t.send(f)
				if i%2000 == 0 {
					t.waitRecv(int64(i-1500), 20*time.Second)
				}
			}
		}()
		out := newND(a[0])
		defer out.close()
		got := 0
		dl := time.After(90 * time.Second)
	loop:
		for got < total {
			select {
			case fr := <-t.recvCh:
				got++
				if got <= 30 || (got >= 65500 && got <= total) || got%8192 == 0 {
					out.put(map[string]any{"ev": "reply", "i": got, "tserial": tser[got], "frame": B(fr), "phone": B(phone), "ver": 0})
				}
			case <-dl:
				break loop
			}
		}
		out.put(map[string]any{"ev": "count", "i": got, "tserial": 0, "frame": B{}, "phone": B(phone), "ver": 0})
		t.close(false)
	}
}

func init() {
	// live-c06burst <connections> <messages> <out>: no hooks, no callback recording (nothing serialises the
	// writer goroutines): every connection fires body-dependent requests at full speed; afterwards the i-th
	// request and the i-th frame received are paired for spec/Trace_Burst.tla
	cmds["live-c06burst"] = func(a []string) {
		nconn, nmsg := atoi(a[0]), atoi(a[1])
		l := startLive(liveOpts{})
		l.rec.mu.Lock()
		l.rec.evs = nil
		l.rec.mu.Unlock()
		r := newRand(616)
		type sess struct {
			t    *term
			sent [][]byte
		}
		var ss []*sess
		for c := 0; c < nconn; c++ {
			ver := c % 2
			phone := randPhone(r, ver)
			for k := range phone {
				phone[k] = byte(r.Intn(10)<<4 | r.Intn(10))
			}
			phone[len(phone)-1] = byte(c/10<<4 | c%10)
			ss = append(ss, &sess{t: l.dial(phone, ver)})
		}
		service_VerifSetHookNil()
		var wg sync.WaitGroup
		start := make(chan struct{})
		for _, s := range ss {
			wg.Add(1)
			go func(s *sess, seed int64) {
				defer wg.Done()
				rr := rand.New(rand.NewSource(seed))
				burstMode = true
				frames := make([][]byte, nmsg)
				for i := range frames {
					for {
						id, body := convMessage(rr, s.t)
						if id == 0x0102 && s.t.ver == 1 && (len(body) < 36 || len(body) < 36+int(body[0])) { // unanswered by design: not in the burst
							continue
						}
						frames[i] = s.t.frame(id, body)
						break
					}
				}
				<-start
				for i, f := range frames {
					s.t.conn.Write(f)
					s.sent = append(s.sent, f)
					if i%40 == 39 {
						s.t.waitRecv(int64(i-30), 10*time.Second)
					}
				}
				s.t.waitRecv(int64(nmsg), 15*time.Second)
			}(s, r.Int63())
		}
		close(start)
		wg.Wait()
		out := newND(a[2])
		defer out.close()
		for ci, s := range ss {
			var recv [][]byte
			for len(s.t.recvCh) > 0 {
				recv = append(recv, <-s.t.recvCh)
			}
			for i, f := range s.sent {
				rv := B{}
				if i < len(recv) {
					rv = recv[i]
				}
				out.put(map[string]any{"c": ci, "i": i + 1, "sent": B(f), "recv": rv, "nrecv": len(recv), "nsent": len(s.sent)})
			}
			s.t.conn.Close()
		}
	}
}

// slowWriterBurst: the writer of one connection is busy (a write callback that takes 80 ms) while far more frames than the
// reader's hand-over queue holds arrive in a single read - plain messages and a sub-packaged transfer that completes among
// them. Nothing is dropped and nothing overtakes: every message is answered, in order
func slowWriterBurst(l *live, k int) {
	phone := []byte{0x01, 0x31, 0x00, 0x00, 0x06, byte(k)}
	t := l.dial(phone, 0)
	t.send(t.frame(0x0002, nil))
	t.waitRecv(1, 3*time.Second)
	var once atomic.Bool
	hold := func(c int) {
		if c == t.idx && !once.Swap(true) {
			time.Sleep(80 * time.Millisecond)
		}
	}
	l.writeHold.Store(&hold)
	t.send(t.frame(0x0002, nil)) // its write callback parks the writer
	time.Sleep(10 * time.Millisecond)
	var burst []byte
	expect := int64(2)
	for i := 0; i < 64; i++ { // (about 2 KB: the first write fills the reader's 1023-byte buffer exactly)
		switch {
		case i >= 10 && i < 22: // a transfer of 12 small parts
			b := []byte{byte(i), byte(i + 1), byte(i + 2)}
			if i == 10 {
				b = make([]byte, 36)
			}
			burst = append(burst, buildFrame(hdrSpec{id: 0x0801, serial: t.nextSerial(), frag: 1, total: 12, no: i - 9, phone: phone, body: b})...)
			if i == 21 {
				expect++
			}
		case i%8 == 6: // registrations and authentications wait their turn like everything else
			if i%16 == 6 {
				burst = append(burst, t.frame(0x0100, append(make([]byte, 25+8), []byte("A12345")...))...)
			} else {
				burst = append(burst, t.frame(0x0102, asciiDigits(phone))...)
			}
			expect++
		case i%2 == 0:
			burst = append(burst, t.frame(0x0002, nil)...)
			expect++
		default:
			burst = append(burst, t.frame(0x0200, make([]byte, 28))...)
			expect++
		}
	}
	for first := true; len(burst) > 0; first = false { // a write of exactly the reader's buffer size (1023 bytes), then everything else at once
		n := len(burst)
		if first {
			n = min(n, 1023)
		}
		t.send(burst[:n])
		burst = burst[n:]
	}
	ok := t.waitRecv(expect, 8*time.Second)
	l.writeHold.Store(nil)
	l.rec.log(t.idx, "D", "assert", "ok", ok, "what", "MessagesLostBehindABusyWriter")
	// as many frames as fit one read: 66 heartbeats of 15 bytes (a few more when a serial or check code needs escaping) in a
	// single write of at most 1023 bytes
	var many []byte
	nmany := 0
	for ; nmany < 66; nmany++ {
		f := t.frame(0x0002, nil)
		if len(many)+len(f) > 1023 {
			break
		}
		many = append(many, f...)
	}
	t.send(many)
	expect += int64(nmany)
	ok = t.waitRecv(expect, 8*time.Second)
	l.rec.log(t.idx, "D", "assert", "ok", ok, "what", "FramesOfOneReadNotAllDelivered")
	time.Sleep(30 * time.Millisecond)
	l.rec.log(t.idx, "D", "end")
	t.close(false)
	time.Sleep(20 * time.Millisecond)
}

// pausedReader: a terminal pipelines requests and does not read for a while (3.6 s) - the server's writer sits in Write with
// replies pending; when the terminal reads again it finds one reply per request, in order, numbered consecutively: back-pressure
// may delay replies, it does not lose or cut them. (20 000 frames: not recorded event by event; the replies are compared with
// the requests as they come in, the verdict is one observation for Trace_Conn.)
func pausedReader(l *live) {
	phone := []byte{0x01, 0x31, 0x00, 0x00, 0x05, 0x01}
	noReadRcvBuf.Store(256 << 10)
	t := l.dialWith(phone, 0, true)
	noReadRcvBuf.Store(2048)
	var progress atomic.Int64
	l.muted.Store(t.idx, &progress)
	n := 300000 // (6 MB of replies: more than the kernel will buffer for a peer that does not read)
	if raceBuild {
		n = 20000 // the instrumented build is run for its race reports, not for this verdict
	}
	var stream []byte
	for i := 0; i < n; i++ {
		stream = append(stream, buildFrame(hdrSpec{id: 0x0002, serial: i, phone: phone})...)
	}
	wrote := make(chan error, 1)
	go func() {
		_, err := t.conn.Write(stream)
		wrote <- err
	}()
	// until the server stops making progress on this connection (its writer is stuck), at most 4 s
	stalledAt := time.Duration(-1)
	t0 := time.Now()
	for last, since := progress.Load(), time.Now(); time.Since(t0) < 4*time.Second; time.Sleep(20 * time.Millisecond) {
		if now := progress.Load(); now != last {
			last, since = now, time.Now()
		} else if time.Since(since) > 300*time.Millisecond {
			stalledAt = time.Since(t0)
			break
		}
	}
	time.Sleep(3600 * time.Millisecond)
	// read again
	got, bad := 0, ""
	buf := make([]byte, 65536)
	var acc []byte
	t.conn.SetReadDeadline(time.Now().Add(60 * time.Second))
	for got < n && bad == "" {
		k, err := t.conn.Read(buf)
		if err != nil {
			bad = fmt.Sprintf("read after %d replies: %v", got, err)
			break
		}
		acc = append(acc, buf[:k]...)
		for bad == "" {
			i := bytes.IndexByte(acc, 0x7e)
			if i < 0 {
				break
			}
			j := bytes.IndexByte(acc[i+1:], 0x7e)
			if j < 0 {
				break
			}
			fr := acc[i : i+j+2]
			dv, _ := decodeView(fr)
			if !dv.Ok || dv.ID != 0x8001 || dv.Serial != got%65536 || len(dv.Body) != 5 || int(dv.Body[0])<<8|int(dv.Body[1]) != got%65536 || dv.Body[2] != 0 || dv.Body[3] != 2 {
				bad = fmt.Sprintf("reply %d is %x", got, fr)
			}
			got++
			acc = acc[i+j+2:]
		}
	}
	select {
	case <-wrote:
	case <-time.After(5 * time.Second):
	}
	l.rec.log(t.idx, "D", "assert", "ok", bad == "" && got == n, "what", "RepliesLostOrCutWhileTheTerminalWasNotReading", "got", got, "detail", bad, "stalled_ms", int(stalledAt/time.Millisecond))
	t.conn.Close()
}

// halfFrameConnections: a few connections that end in the middle of a frame (whatever a connection leaves behind is its own)
func halfFrameConnections(l *live, n int) {
	for k := 0; k < n; k++ {
		d := l.dial([]byte{0x01, 0x0a, 0x0d, 0x00, byte(0x20 + k/100), byte(k % 100)}, 0)
		f := d.frame(0x0200, make([]byte, 28))
		d.send(append(d.frame(0x0002, nil), f[:len(f)/2+k]...))
		time.Sleep(3 * time.Millisecond)
		d.close(k%3 == 1)
		time.Sleep(5 * time.Millisecond)
	}
	time.Sleep(40 * time.Millisecond)
}

func init() {
	// live-c04 <trace>: segmentation over a real socket.  One connection; a short stream of frames whose bodies are full of
	// bytes that line-oriented or text-minded code might treat specially (CR, LF, NUL, TAB, space, 0x7d/0x7e pairs) is sent
	// once per cut position, in two writes with a pause in between, so that the server's reads end at every byte position.
	cmds["live-c04"] = func(a []string) {
		l := startLive(liveOpts{traceTo: a[0]})
		phone := []byte{0x01, 0x0a, 0x0d, 0x00, 0x20, 0x09} // the phone field itself holds LF, CR, NUL, space, TAB (BCD digits 010a0d002009)
		halfFrameConnections(l, 40)
		slowWriterBurst(l, 3)
		t := l.dial(phone, 0)
		t.serial = 0x0a0c // serials 0x0a0d.. : CR / LF inside the header as well
		bodies := [][]byte{
			{0x0d, 0x0a, 0x31, 0x32, 0x0d, 0x0a},
			append(append([]byte{0x0a}, make([]byte, 26)...), 0x0d),
			{0x20, 0x09, 0x00, 0x7e, 0x0a, 0x7d, 0x0d, 0x0a, 0x0a},
		}
		expect := int64(0)
		missed := false
		round := func(cut int) {
			var stream []byte
			end0200 := 0
			for i, b := range bodies {
				body := b
				if i == 1 {
					body = append([]byte{}, b...)
					body = append(body, 0x0a)[:28] // a 28-byte location block beginning with LF
				}
				stream = append(stream, t.frame([]int{0x0900, 0x0200, 0x0900}[i], body)...)
				if i == 1 {
					end0200 = len(stream)
				}
			}
			if cut <= 0 || cut >= len(stream) {
				t.send(stream)
			} else {
				t.send(stream[:cut])
				if cut >= end0200 && !missed {
					// the answered frame is complete in what has been sent: its reply comes without the rest of the stream
					ok := t.waitRecv(expect+1, 3*time.Second)
					l.rec.log(t.idx, "D", "assert", "ok", ok, "what", "CompleteFrameWithheldUntilMoreDataArrived", "cut", cut)
				} else {
					time.Sleep(1500 * time.Microsecond)
				}
				t.send(stream[cut:])
			}
			expect++ // only the 0x0200 is answered (0x0900 is not a supported id)
			wait := 5 * time.Second
			if missed {
				wait = 100 * time.Millisecond // a reply already failed to come: the rest is sent without long waits
			}
			if !t.waitRecv(expect, wait) {
				missed = true
			}
		}
		round(0)
		n := 0
		{
			var probe []byte
			for i, b := range bodies {
				probe = append(probe, buildFrame(hdrSpec{id: []int{0x0900, 0x0200, 0x0900}[i], serial: 1, phone: phone, body: b})...)
			}
			n = len(probe) + 8
		}
		for cut := 1; cut < n; cut++ {
			round(cut)
		}
		time.Sleep(30 * time.Millisecond)
		l.rec.log(t.idx, "D", "end")
		t.close(false)
		time.Sleep(50 * time.Millisecond)
		l.dump(a[0])
	}
}
