SPECIFICATION Spec
CONSTANTS
  Conns = {1, 2, 3, 4}
  KeyOf <- KeyOfDef
  Callers = {1, 2}
  CallKey <- CallKeyDef
  CapOp = 2
INVARIANTS AtMostOne RegistryExact RefuseKeepsFirst LeaveFreesOwn RouteToOwner Callbacks
PROPERTIES KeyFreed
CHECK_DEADLOCK FALSE
