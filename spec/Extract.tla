------------------------------- MODULE Extract -------------------------------
(* The per-connection frame extractor of the JT808 server (service/          *)
(* packet_parse.go): byte stream -> frames (Unpack), sub-package reassembly, *)
(* expiry of stale transfers and re-request of missing packets (0x8003).     *)
(*                                                                           *)
(*   x = [hist, rec, now]                                                    *)
(*   hist : bytes received but not yet consumed as a frame                   *)
(*   rec  : message id -> [total, slots, created, updated, first]            *)
(*          slots : 1..total -> body (<<>> = not received; an empty packet   *)
(*          body counts as missing, as in the code), first = decoded header  *)
(*          of packet 1 (re-requests are addressed with it and name its      *)
(*          serial)                                                          *)
(*   now  : logical clock (milliseconds)                                     *)
(*                                                                           *)
(* Feed(x, chunk) is what the reader does with the bytes of one Read:        *)
(*   1 Unpack      fast path (the read is exactly one frame and nothing is   *)
(*                 buffered) or append + drain                               *)
(*   2 Expire      transfers older than Ttl are dropped   (see DESIGN: the   *)
(*                 code ran this after step 3; a completing packet arriving  *)
(*                 first after the limit was still delivered)                *)
(*   3 Packets     store / complete sub-packages                             *)
(*   4 ReRequest   for transfers idle longer than Idle: one 0x8003           *)
(* Output order: frames in stream order, each completed message directly     *)
(* after its last packet, then re-requests.                                  *)
EXTENDS Frame, TLC

Idle == 5000
Ttl  == 60000

---------------------------------------------------------------------------
(* 1. Unpack *)
SecondFlag(d) == LET a == IndexFrom(d, FLAG, 1) IN IF a = 0 THEN 0 ELSE IndexFrom(d, FLAG, a + 1)
FastPath(hist, d) == hist = <<>> /\ Len(d) > 2 /\ d[Len(d)] = FLAG /\ SecondFlag(d) = Len(d)

RECURSIVE DrainFrames(_, _)
DrainFrames(h, acc) ==
    IF Len(h) > 2 /\ h[1] = FLAG /\ IndexFrom(h, FLAG, 2) # 0
    THEN LET e == IndexFrom(h, FLAG, 2) fr == Sub(h, 1, e) IN
         IF Decode(fr).ok THEN DrainFrames(Drop(h, e), Append(acc, fr))
         ELSE [hist |-> Drop(h, e), frames |-> acc, err |-> TRUE]
    ELSE [hist |-> h, frames |-> acc, err |-> FALSE]

Unpack(hist, d) ==
    IF FastPath(hist, d)
    THEN IF Decode(d).ok THEN [hist |-> <<>>, frames |-> <<d>>, err |-> FALSE]
         ELSE [hist |-> <<>>, frames |-> <<>>, err |-> TRUE]
    ELSE DrainFrames(hist \o d, <<>>)

---------------------------------------------------------------------------
(* 2-4. Sub-packages.  A message m is a Frame!Decode record plus raw bytes. *)
Ext(fn, k, v) == [y \in DOMAIN fn \cup {k} |-> IF y = k THEN v ELSE fn[y]]
Without(fn, ks) == [y \in DOMAIN fn \ ks |-> fn[y]]

NewRec(m, now) == [total |-> m.total, slots |-> [k \in 1..m.total |-> <<>>], created |-> now, updated |-> now, first |-> m]
Missing(r) == {k \in 1..r.total : r.slots[k] = <<>>}
Assembled(r) == Concat(Mat([k \in 1..r.total |-> r.slots[k]]))

Expire(rec, now) == Without(rec, {id \in DOMAIN rec : now - rec[id].created > Ttl})

\* one decoded frame through the reassembly table -> [rec, done]; done = completed message or <<>>
PacketStep(rec, m, now) ==
    IF m.total = 0 THEN [rec |-> rec, done |-> <<>>]
    ELSE LET r1 == IF m.no = 1 THEN Ext(rec, m.id, NewRec(m, now)) ELSE rec IN
         IF m.id \notin DOMAIN r1 \/ m.no < 1 \/ m.no > r1[m.id].total
         THEN [rec |-> r1, done |-> <<>>]                           \* impossible number / no transfer: ignored
         ELSE LET t == [r1[m.id] EXCEPT !.slots[m.no] = m.body, !.updated = now] IN
              IF Missing(t) = {}
              THEN [rec |-> Without(r1, {m.id}),
                    done |-> <<[kind |-> "complete", id |-> m.id, serial |-> m.serial, total |-> m.total, no |-> m.no,
                                body |-> Assembled(t), ver |-> m.ver, phone |-> m.phone, raw |-> <<>>]>>]
              ELSE [rec |-> Ext(r1, m.id, t), done |-> <<>>]

\* every frame is reported in stream order, and a completed message directly after the packet that
\* completed it - wherever the read boundaries fall (the code used to append completions after all
\* frames of the same read, which made the delivery order depend on TCP segmentation)
RECURSIVE Packets(_, _, _, _, _)
Packets(rec, ms, i, now, acc) ==
    IF i > Len(ms) THEN [rec |-> rec, out |-> acc]
    ELSE LET r == PacketStep(rec, ms[i], now) IN Packets(r.rec, ms, i + 1, now, Append(acc, ms[i]) \o r.done)

\* 0x8003 body: original serial (first packet's), count, missing numbers ascending
Body8003(serial, missing) == LET s == SortSeq(SetToSeq(missing), LAMBDA a, b : a < b) IN
                             U16(serial) \o <<Len(s)>> \o Concat([i \in 1..Len(s) |-> U16(s[i])])
DueForReRequest(rec, now) == {id \in DOMAIN rec : now - rec[id].updated > Idle}
ReReq(rec, id) == [kind |-> "rereq", id |-> id, serial |-> rec[id].first.serial, missing |-> Missing(rec[id]),
                   body |-> Body8003(rec[id].first.serial, Missing(rec[id]))]
Touch(rec, ids, now) == [id \in DOMAIN rec |-> IF id \in ids THEN [rec[id] EXCEPT !.updated = now] ELSE rec[id]]

---------------------------------------------------------------------------
Msg(fr) == LET d == Decode(fr) IN
           [kind |-> IF d.total = 0 THEN "plain" ELSE "part", id |-> d.id, serial |-> d.serial, total |-> d.total,
            no |-> d.no, body |-> d.body, ver |-> d.ver, phone |-> d.phone, raw |-> fr]

InitX == [hist |-> <<>>, rec |-> <<>>, now |-> 0]

\* Feed -> [x, out (sequence of messages), rereq (SET of re-requests), err]
Feed(x, chunk) ==
    LET u    == Unpack(x.hist, chunk)
        ms   == Mat([i \in 1..Len(u.frames) |-> Msg(u.frames[i])])
        r0   == IF DOMAIN x.rec = {} THEN x.rec ELSE Expire(x.rec, x.now)
        p    == Packets(r0, ms, 1, x.now, <<>>)
        due  == DueForReRequest(p.rec, x.now)
    IN [x |-> [x EXCEPT !.hist = u.hist, !.rec = Touch(p.rec, due, x.now)],
        out |-> p.out,
        rereq |-> {ReReq(p.rec, id) : id \in due},
        err |-> u.err]

Tick(x, d) == [x EXCEPT !.now = x.now + d]
=============================================================================
