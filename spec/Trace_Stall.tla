------------------------------ MODULE Trace_Stall ------------------------------
(* C13 with a terminal that stops reading (its writer stuck in Write) and then  *)
(* half-closes: commands written before the stall whose time-outs expire       *)
(* meanwhile, commands without a time-out queued behind the stuck writer, one   *)
(* more than the queue holds.  Whatever that terminal does,                     *)
(*   - the session manager keeps serving other terminals,                       *)
(*   - the server tears the connection down once the terminal has half-closed   *)
(*     or reset (nothing is read by the terminal: only the teardown frees the   *)
(*     stuck writer),                                                           *)
(*   - every SendActiveMessage returns: with its time-out (by the caller's own  *)
(*     deadline at the latest), at once when the queue is full, and - for calls *)
(*     without a time-out - with an error soon after the connection ended.      *)
EXTENDS Integers, Sequences, FiniteSets, Json, IOUtils
Trace == ndJsonDeserialize(IOEnv.VERIF_TRACE)
VARIABLE l
Init == l = 0
Next == l = 0 /\ l' \in 1..Len(Trace)
E == Trace[l]
Judged == l > 0 /\ E.ev = "stall" /\ E.stalled        \* (a run in which the writer could not be stalled is not judged)
ManagerServes == Judged => E.manager_ok
R(i) == E.results[i]
EveryCallReturns == Judged => /\ E.all_returned /\ Len(E.results) = E.calls
CallsReturnAsSpecified == Judged => \A i \in 1..Len(E.results) :
    \/ R(i).tmo > 0 /\ R(i).kind \in {"timeout", "closed", "writefail"} /\ R(i).ms <= R(i).tmo + 1000 + 600
    \/ R(i).tmo = 0 /\ R(i).kind \in {"timeout", "closed", "writefail"} /\ R(i).ms <= 3000 + 1000 + 600       \* the default time-out
    \/ R(i).tmo < 0 /\ R(i).kind = "busy" /\ R(i).ms <= 500                                    \* the one that did not fit
    \/ R(i).tmo < 0 /\ R(i).kind \in {"closed", "writefail"} /\ R(i).late >= 0 /\ R(i).late <= 1500   \* answered by the teardown
AtMostOneBusy == Judged => Cardinality({i \in 1..Len(E.results) : R(i).kind = "busy"}) <= 4
=============================================================================
