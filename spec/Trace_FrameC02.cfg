INIT Init
NEXT Next
INVARIANTS SpecSound VerdictMatches FieldsMatch
CHECK_DEADLOCK FALSE
