INIT Init
NEXT Next
INVARIANTS Report
CHECK_DEADLOCK FALSE
