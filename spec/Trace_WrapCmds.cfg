INIT Init
NEXT Next
INVARIANTS FreshSerials OwnResponses
CHECK_DEADLOCK FALSE
