package main

// Adapters for the frame layer (spec/Frame.tla): C01 and C02.

import (
	"bytes"
	"fmt"
	"math/rand"
	"sync/atomic"

	"github.com/cuteLittleDevil/go-jt808/protocol/jt808"
	"github.com/cuteLittleDevil/go-jt808/shared/consts"
)

// DecView is the projection of a jt808.JTMessage onto the variables of Frame!Decode.
type DecView struct {
	Ok     bool   `json:"ok"`
	Err    string `json:"err,omitempty"`
	Panic  string `json:"panic,omitempty"`
	ID     int    `json:"id"`
	Len    int    `json:"len"`
	Enc    int    `json:"enc"`
	Frag   int    `json:"frag"`
	Ver    int    `json:"ver"`
	Digits B      `json:"digits"`
	Serial int    `json:"serial"`
	Total  int    `json:"total"`
	No     int    `json:"no"`
	Body   B      `json:"body"`
}

func digitsOf(phone string) B {
	d := make(B, 0, len(phone))
	for _, c := range []byte(phone) {
		switch {
		case c >= '0' && c <= '9':
			d = append(d, c-'0')
		case c >= 'a' && c <= 'f':
			d = append(d, c-'a'+10)
		default:
			d = append(d, 255)
		}
	}
	return d
}

func viewOf(m *jt808.JTMessage) DecView {
	h := m.Header
	v := DecView{Ok: true, ID: int(h.ID), Len: int(h.Property.BodyDayaLen), Enc: int(h.Property.EncryptMethod),
		Frag: int(h.Property.PacketFragmented), Digits: digitsOf(h.TerminalPhoneNo), Serial: int(h.SerialNumber),
		Total: int(h.SubPackageSum), No: int(h.SubPackageNo), Body: append(B{}, m.Body...)}
	if h.ProtocolVersion == consts.JT808Protocol2019 {
		v.Ver = 1
	}
	return v
}

func decodeView(f []byte) (DecView, *jt808.JTMessage) {
	var (
		m   = jt808.NewJTMessage()
		err error
	)
	in := exact(f)
	p := protect(func() { err = m.Decode(in) })
	if !bytes.Equal(in, f) { // the frame belongs to the caller (it may decode it again, log it, forward it)
		inputChanged.Store(true)
	}
	if p != "" {
		return DecView{Panic: p}, nil
	}
	if err != nil {
		return DecView{Err: err.Error()}, nil
	}
	return viewOf(m), m
}

// inputChanged: set when a Decode call modified the bytes it was given; read and reset by the replay loops
var inputChanged atomic.Bool

type c01Case struct {
	Src  B   `json:"src"`
	ID   int `json:"id"`
	Pser int `json:"pser"`
	Body B   `json:"body"`
	Out  B   `json:"out"`
	// filled by the generator (I->S direction)
	Dec   *DecView `json:"dec,omitempty"`
	SrcD  *DecView `json:"srcd,omitempty"`
	Class string   `json:"class,omitempty"`
}

func lenClass(n int) string {
	switch {
	case n == 0:
		return "0"
	case n < 1000:
		return "<1000"
	case n <= 1023:
		return "1000..1023"
	}
	return ">1023"
}

// encodeLikeUser obtains the header the way users do (Decode of a terminal frame) and frames body.
func encodeLikeUser(src []byte, id, pser int, body []byte) (out []byte, sv DecView, p string) {
	sv, m := decodeView(src)
	if !sv.Ok {
		return nil, sv, "source frame not decodable: " + sv.Err + sv.Panic
	}
	p = protect(func() {
		m.Header.ReplyID = uint16(id)
		m.Header.PlatformSerialNumber = uint16(pser)
		out = m.Header.Encode(exact(body))
	})
	return out, sv, p
}

func init() {
	// S->I: replay TLC-emitted cases on Header.Encode / JTMessage.Decode
	cmds["c01-replay"] = func(a []string) {
		out := newND(a[1])
		defer out.close()
		n, classes := 0, map[string]int{}
		var samples []any
		var heldFrame, heldCopy []byte
		var heldCase c01Case
		chain := jt808.NewJTMessage()
		chainBuf := make([]byte, 0, 8192) // ... fed from one read buffer that is overwritten by every next frame (a server's read loop)
		var chainPrev c01Case
		err := readND(a[0], func(i int, raw []byte) error {
			var c c01Case
			if err := jsonUnmarshal(raw, &c); err != nil {
				return err
			}
			n++
			got, sv, p := encodeLikeUser(c.Src, c.ID, c.Pser, c.Body)
			cls := fmt.Sprintf("ver=%d frag=%d len%s", sv.Ver, sv.Frag, lenClass(len(c.Body)))
			// (the encoded reply is decoded once here: decoding does not change the frame - it can be decoded, logged or sent again)
			if decodeView(got); inputChanged.Swap(false) {
				out.put(mismatch{"decode-changed-the-frame-it-was-given " + cls, fmt.Sprintf("source %x reply %x", []byte(c.Src), got), c})
			}
			classes[cls]++
			// the same through one long-lived JTMessage that decodes every source frame and encodes every reply in turn:
			// what it decoded or encoded before must not show
			if p == "" {
				var again []byte
				var derr error
				var cv DecView
				pn := protect(func() {
					chainBuf = append(chainBuf[:0], c.Src...)
					derr = chain.Decode(chainBuf)
					if derr == nil {
						cv = viewOf(chain)
						cv.Ok = true
						chain.Header.ReplyID = uint16(c.ID)
						chain.Header.PlatformSerialNumber = uint16(c.Pser)
						again = chain.Header.Encode(exact(c.Body))
					}
				})
				if pn == "" && derr == nil && !sameView(cv, sv) {
					out.put(mismatch{"reused-message-decodes-differently " + cls, fmt.Sprintf("reused %+v fresh %+v", cv, sv), []c01Case{chainPrev, c}})
					chain = jt808.NewJTMessage()
				} else if pn != "" || derr != nil || !bytes.Equal(again, got) {
					out.put(mismatch{"reused-message-differs " + cls, fmt.Sprintf("panic=%q err=%v: reused %x fresh %x", pn, derr, again, got), []c01Case{chainPrev, c}})
					chain = jt808.NewJTMessage()
				}
				chainPrev = c
			}
			// a frame that was handed out stays what it was while later frames are encoded (it may still be queued for writing)
			if heldFrame != nil && !bytes.Equal(heldFrame, heldCopy) {
				out.put(mismatch{"encoded-frame-changed-by-a-later-encode " + cls, fmt.Sprintf("was %x, is %x after encoding the next frame", heldCopy, heldFrame), []c01Case{heldCase, c}})
			}
			if i%3 != 2 { // hold some frames across two later encodes
				heldFrame, heldCopy, heldCase = got, append([]byte{}, got...), c
			}
			if len(samples) < 3 && len(c.Body) > 2 {
				samples = append(samples, c)
			}
			if p != "" {
				out.put(mismatch{"encode-panic " + cls, p, c})
				return nil
			}
			if !bytes.Equal(got, c.Out) {
				out.put(mismatch{"encode-differs-from-spec " + cls, fmt.Sprintf("got %x want %x", got, []byte(c.Out)), c})
				return nil
			}
			dv, _ := decodeView(got)
			if !dv.Ok || dv.ID != c.ID || dv.Serial != c.Pser || !bytes.Equal(dv.Body, c.Body) ||
				!bytes.Equal(dv.Digits, sv.Digits) || dv.Ver != sv.Ver {
				out.put(mismatch{"roundtrip-fails " + cls, fmt.Sprintf("decoded %+v", dv), c})
			}
			if bytes.IndexByte(got[1:len(got)-1], 0x7e) >= 0 || got[0] != 0x7e || got[len(got)-1] != 0x7e {
				out.put(mismatch{"delimiter-not-transparent " + cls, fmt.Sprintf("%x", got), c})
			}
			return nil
		})
		if err != nil {
			die(err)
		}
		out.put(summary{Summary: true, Cases: n, Distinct: n, Classes: classes, Samples: samples})
	}

	// I->S: seeded random/large cases produced by the real code, to be validated by Trace_FrameC01
	cmds["c01-gen"] = func(a []string) {
		n := atoi(a[0])
		out := newND(a[1])
		defer out.close()
		r := newRand(101)
		for i := 0; i < n; i++ {
			src := randTerminalFrame(r, i)
			ids := []int{0x8001, 0x8100, 0x8103, 0x007e, 0x7d7e, 0x7e7d, 0xffff, 0x8800, 1 + r.Intn(65535)}
			c := c01Case{Src: src, ID: ids[r.Intn(len(ids))], Pser: []int{0, 65535, 0x7e7d, 0x7d, r.Intn(65536)}[r.Intn(5)],
				Body: randBody(r, i)}
			got, sv, p := encodeLikeUser(c.Src, c.ID, c.Pser, c.Body)
			c.SrcD = &sv
			c.Class = fmt.Sprintf("ver=%d frag=%d len%s", sv.Ver, sv.Frag, lenClass(len(c.Body)))
			if p != "" {
				c.Out = B{}
				c.Dec = &DecView{Panic: p}
			} else {
				c.Out = got
				dv, _ := decodeView(got)
				c.Dec = &dv
			}
			out.put(c)
		}
	}
}

// randBody: lengths 0..1023 with emphasis on the boundaries, contents over all 256 values or escape-dense
func randBody(r *rand.Rand, i int) B {
	lens := []int{0, 1, 2, 998, 999, 1000, 1001, 1021, 1022, 1023}
	n := r.Intn(1024)
	if i%3 == 0 {
		n = lens[r.Intn(len(lens))]
	} else if i%3 == 1 {
		n = r.Intn(40)
	}
	b := make(B, n)
	dense := r.Intn(3)
	sp := []byte{0x7e, 0x7d, 0x01, 0x02}
	for k := range b {
		switch dense {
		case 0:
			b[k] = byte(r.Intn(256))
		case 1:
			b[k] = sp[r.Intn(4)]
		default:
			if r.Intn(4) == 0 {
				b[k] = sp[r.Intn(4)]
			} else {
				b[k] = byte(r.Intn(256))
			}
		}
	}
	return b
}

type hdrSpec struct {
	id, serial, total, no int
	ver, frag, enc3, rsv  int
	verbyte               byte
	phone                 []byte
	body                  []byte
}

func xorAll(b []byte) byte {
	var c byte
	for _, v := range b {
		c ^= v
	}
	return c
}

func escapeRef(p []byte) []byte {
	out := []byte{0x7e}
	for _, v := range p {
		switch v {
		case 0x7e:
			out = append(out, 0x7d, 0x02)
		case 0x7d:
			out = append(out, 0x7d, 0x01)
		default:
			out = append(out, v)
		}
	}
	return append(out, 0x7e)
}

// buildFrame is the harness's own frame builder (test-side terminal); it is validated against
// the specification by the trace checks (every frame it builds travels to TLC with its fields).
func buildFrame(h hdrSpec) []byte { return escapeRef(buildFrameRaw(h)) }

// buildFrameRaw returns header, body and checksum before escaping
func buildFrameRaw(h hdrSpec) []byte {
	attr := h.rsv<<15 | h.ver<<14 | h.frag<<13 | h.enc3<<10 | (len(h.body) & 0x3ff)
	p := []byte{byte(h.id >> 8), byte(h.id), byte(attr >> 8), byte(attr)}
	if h.ver == 1 {
		p = append(p, h.verbyte)
	}
	p = append(p, h.phone...)
	p = append(p, byte(h.serial>>8), byte(h.serial))
	if h.frag == 1 {
		p = append(p, byte(h.total>>8), byte(h.total), byte(h.no>>8), byte(h.no))
	}
	p = append(p, h.body...)
	return append(p, xorAll(p))
}

func randPhone(r *rand.Rand, ver int) []byte {
	n := 6
	if ver == 1 {
		n = 10
	}
	p := make([]byte, n)
	switch r.Intn(5) {
	case 4: // all digits significant, also beyond 2^64-1 for the 20-digit form (a phone is a digit string, not an integer)
		for k := range p {
			p[k] = byte(r.Intn(10)<<4 | r.Intn(10))
		}
		p[0] = []byte{0x18, 0x19, 0x20, 0x99, 0x10}[r.Intn(5)]
	case 0: // all zero
	case 1: // plausible decimal phone
		for k := range p {
			p[k] = byte(r.Intn(10)<<4 | r.Intn(10))
		}
		p[0] = 0
	case 2: // arbitrary bytes, including 7e/7d
		for k := range p {
			p[k] = []byte{0x7e, 0x7d, 0x01, 0x02, byte(r.Intn(256))}[r.Intn(5)]
		}
	default:
		for k := range p {
			p[k] = byte(r.Intn(256))
		}
	}
	return p
}

func randHdr(r *rand.Rand) hdrSpec {
	h := hdrSpec{id: []int{0x0002, 0x0200, 0x0100, 0x0102, 0x0704, r.Intn(65536)}[r.Intn(6)],
		serial: []int{0, 65535, 0x7e7e, r.Intn(65536)}[r.Intn(4)], ver: r.Intn(2), frag: r.Intn(2),
		enc3: []int{0, 0, 1}[r.Intn(3)], verbyte: 1}
	h.phone = randPhone(r, h.ver)
	if h.frag == 1 {
		h.total = 1 + r.Intn(5)
		h.no = 1 + r.Intn(h.total)
	}
	return h
}

func randTerminalFrame(r *rand.Rand, i int) B {
	h := randHdr(r)
	h.body = randBody(r, i*7+1)
	if len(h.body) > 64 && r.Intn(4) != 0 { // mostly short sources; one in four keeps its length (511/512/1023: the source's own length bits)
		h.body = h.body[:r.Intn(64)]
	}
	return buildFrame(h)
}

// ---------------------------------------------------------------- C02

type c02Case struct {
	F    B       `json:"f"`
	D    DecView `json:"d"`
	Kind string  `json:"kind"`
}

func sameView(a, b DecView) bool {
	if a.Ok != b.Ok {
		return false
	}
	if !a.Ok {
		return true
	}
	return a.ID == b.ID && a.Len == b.Len && a.Enc == b.Enc && a.Frag == b.Frag && a.Ver == b.Ver &&
		bytes.Equal(a.Digits, b.Digits) && a.Serial == b.Serial && a.Total == b.Total && a.No == b.No &&
		bytes.Equal(a.Body, b.Body)
}

func hasInteriorFlag(f []byte) bool {
	return len(f) > 2 && bytes.IndexByte(f[1:len(f)-1], 0x7e) >= 0
}

func init() {
	cmds["c02-replay"] = func(a []string) {
		out := newND(a[1])
		defer out.close()
		n, acc := 0, 0
		classes := map[string]int{}
		var samples []any
		chain2 := jt808.NewJTMessage()
		chain2Buf := make([]byte, 0, 8192) // fed from one read buffer that every next frame overwrites
		var chain2Prev c02Case
		var heldMsg *jt808.JTMessage
		var heldBody []byte
		var heldPhone string
		var heldID int
		var heldCase c02Case
		err := readND(a[0], func(i int, raw []byte) error {
			var c c02Case
			if err := jsonUnmarshal(raw, &c); err != nil {
				return err
			}
			n++
			got, gm := decodeView(c.F)
			if inputChanged.Swap(false) {
				out.put(mismatch{"decode-changed-the-frame-it-was-given " + c.Kind, fmt.Sprintf("%x", []byte(c.F)), c})
			}
			cls := c.Kind + map[bool]string{true: " accepted", false: " rejected"}[c.D.Ok]
			// the same frame through one long-lived JTMessage that has decoded every earlier frame and encoded a reply after each
			{
				var rerr error
				chain2Buf = append(chain2Buf[:0], c.F...)
				pn := protect(func() { rerr = chain2.Decode(chain2Buf) })
				rv := DecView{Ok: rerr == nil && pn == ""}
				if rv.Ok {
					rv = viewOf(chain2)
					rv.Ok = true
					protect(func() { chain2.Header.ReplyID = 0x8001; chain2.Header.Encode([]byte{1, 2, 3, 4, 5}) })
				}
				if pn != "" || rv.Ok != got.Ok || (rv.Ok && !sameView(rv, got)) {
					out.put(mismatch{"reused-message-differs " + c.Kind, fmt.Sprintf("panic=%q reused ok=%v %+v fresh ok=%v %+v", pn, rv.Ok, rv, got.Ok, got), []c02Case{chain2Prev, c}})
					chain2 = jt808.NewJTMessage()
				}
				chain2Prev = c
			}
			// a message that was decoded stays what it was while later frames are decoded
			if heldMsg != nil && (!bytes.Equal(heldMsg.Body, heldBody) || heldMsg.Header.TerminalPhoneNo != heldPhone || int(heldMsg.Header.ID) != heldID) {
				out.put(mismatch{"decoded-message-changed-by-a-later-decode " + c.Kind,
					fmt.Sprintf("body was %x is %x, phone was %s is %s", heldBody, heldMsg.Body, heldPhone, heldMsg.Header.TerminalPhoneNo), []c02Case{heldCase, c}})
				heldMsg = nil
			}
			if got.Ok && gm != nil && gm.Header != nil && i%3 != 2 {
				heldMsg, heldBody, heldPhone, heldID, heldCase = gm, append([]byte{}, gm.Body...), gm.Header.TerminalPhoneNo, int(gm.Header.ID), c
			}
			classes[cls]++
			if c.D.Ok {
				acc++
				if len(samples) < 3 && c.Kind != "seed" {
					samples = append(samples, c)
				}
			}
			switch {
			case got.Panic != "":
				out.put(mismatch{"decode-panic " + c.Kind, got.Panic, c})
			case got.Ok && !c.D.Ok:
				out.put(mismatch{"accepts-ill-formed " + c.Kind, fmt.Sprintf("%x accepted as %+v", []byte(c.F), got), c})
			case !got.Ok && c.D.Ok:
				out.put(mismatch{"rejects-well-formed " + c.Kind, fmt.Sprintf("%x rejected: %s", []byte(c.F), got.Err), c})
			case !sameView(got, c.D):
				out.put(mismatch{"fields-differ " + c.Kind, fmt.Sprintf("got %+v want %+v", got, c.D), c})
			}
			return nil
		})
		if err != nil {
			die(err)
		}
		out.put(summary{Summary: true, Cases: n, Distinct: n, Classes: classes, Samples: samples})
	}

	cmds["c02-gen"] = func(a []string) {
		n := atoi(a[0])
		out := newND(a[1])
		defer out.close()
		r := newRand(202)
		for i := 0; out.n < n; i++ {
			h := randHdr(r)
			h.rsv = []int{0, 0, 0, 1}[r.Intn(4)]
			h.enc3 = []int{0, 0, 1, 2, 4, 7}[r.Intn(6)]
			h.verbyte = byte([]int{1, 1, 0, 2, 0x7d}[r.Intn(5)])
			h.total, h.no = r.Intn(65536), r.Intn(65536)
			h.body = randBody(r, i)
			f := buildFrame(h)
			kind := "valid"
			if r.Intn(6) == 0 && len(h.body) > 0 {
				// make the checksum 7D by adjusting the last body byte, and send it unescaped (tolerated deviation)
				raw := buildFrameRaw(h)
				cs := raw[len(raw)-1]
				nb := h.body[len(h.body)-1] ^ cs ^ 0x7d
				if nb != 0x7e && nb != 0x7d {
					h.body[len(h.body)-1] = nb
					raw = buildFrameRaw(h)
					esc := escapeRef(raw[:len(raw)-1])
					f = append(esc[:len(esc)-1], 0x7d, 0x7e)
					kind = "raw7d"
				}
			}
			switch r.Intn(8) {
			case 0: // bit flip
				k := r.Intn(len(f))
				f[k] ^= 1 << uint(r.Intn(8))
				kind = "bitflip"
			case 1: // byte substitution by a special
				f[r.Intn(len(f))] = []byte{0x7d, 0x01, 0x02, 0x00, 0x7e}[r.Intn(5)]
				kind = "subst"
			case 2:
				f = f[:r.Intn(len(f))]
				kind = "truncate"
			case 3:
				k := r.Intn(len(f) + 1)
				f = append(f[:k:k], append([]byte{[]byte{0x7d, 0x01, 0x02, 0x41}[r.Intn(4)]}, f[k:]...)...)
				kind = "insert"
			case 4:
				k := r.Intn(len(f))
				f = append(f[:k:k], f[k+1:]...)
				kind = "delete"
			case 5: // random string between delimiters
				m := r.Intn(40)
				f = []byte{0x7e}
				for k := 0; k < m; k++ {
					f = append(f, []byte{0x7d, 0x01, 0x02, byte(r.Intn(256))}[r.Intn(4)])
				}
				f = append(f, 0x7e)
				kind = "random"
			}
			if hasInteriorFlag(f) {
				continue // outside the property's domain
			}
			d, _ := decodeView(f)
			out.put(c02Case{F: f, D: d, Kind: kind})
		}
		// bodies longer than the ten-bit length field can say: the declared length is the actual length modulo 1024 (also modulo
		// 65536): valid checksum, valid escaping, and still not a well-formed frame
		for _, extra := range []int{1024, 64512, 65536, 66560, 131072} {
			h := randHdr(r)
			h.body = bytes.Repeat([]byte{0x41}, 5+extra)
			f := buildFrame(h)
			d, _ := decodeView(f)
			out.put(c02Case{F: f, D: d, Kind: "long"})
		}
	}
}
