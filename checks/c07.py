"""C07 Message body round trip for every message type (DESIGN.md section 5, C07)."""
import json, os
import vlib
from checks.c01 import run_results, trace_validate

LEVEL = "model_checking"


def check(ctx):
    thorough = ctx.tier == "thorough"
    ctx.build()
    cases = os.path.join(ctx.scratch, "c07_cases.ndjson")
    ctx.tlc("MC_Layouts", constants={"MaxList": 4 if thorough else 3}, env={"VERIF_OUT": cases}, workers=1)  # one worker: long lines of concurrent CSVWrite calls interleave
    res = os.path.join(ctx.scratch, "c07_res.ndjson")
    ctx.vh_ok(["c07-replay", cases, res])
    run_results(ctx, res, "MC_Layouts-values-replayed-through-Encode/Parse")
    tr = os.path.join(ctx.scratch, "c07_helpers.ndjson")
    ctx.vh_ok(["c07-helpers", 2000 if thorough else 300, tr, 1 if thorough else 8, ctx.seed])
    events = vlib.read_nd(tr, quoted=False)
    trace_validate(ctx, "Trace_Helpers", tr, events, "helper-results-validated-by-Trace_Helpers", lambda inv, e: inv)
    ctx.cov["rule"] = ("MC_Layouts: for each of the specified two-way types a base value, every one of 5 variants (zeros, one, 7D/7E pattern, all FF, "
                       "position coded; strings of length 0/1/9/4/40; lists of 0..MaxList items) of every field with the others at base, and the "
                       "uniform variants; RT1/RT2 on the layout interpreter; each (type, value, bytes) set on the real struct by reflection: Encode "
                       "must give the bytes, Parse of the bytes the value, re-Encode the bytes. Helpers validated by Trace_Helpers.")
    ctx.cov["exhaustive"] = True
    ctx.assumptions += ["types with layouts in spec/Layouts.tla are covered (43 layouts: 0x0100 x 3 versions, 0x0102 x 2, 0x1210 / 0x9208 x 5 dialects, 0x0704 with 28-byte items, "
                        "0x8103 parameters as a table; 0x0104 has no encoder and 0x1212 none of its own)",
                        "in-domain values: BCD timestamps with decimal digits, length/count fields consistent with their lists",
                        "GBK<->UTF-8: round-trip law, agreement with the golang.org/x/text tables and the GBK unit structure on every encodable character of the basic plane (thorough) or every 8th plus the boundary characters (quick), each alone and next to ASCII / CJK neighbours; the tables themselves are trusted"]


def replay(ctx, path):
    r = json.load(open(path))["replay"]
    ctx.build()
    f = os.path.join(ctx.scratch, "one.ndjson"); open(f, "w").write("".join(json.dumps(x) + "\n" for x in (r["case"] if isinstance(r["case"], list) else [r["case"]])))
    out = os.path.join(ctx.scratch, "one_res.ndjson")
    ctx.vh_ok(["c07-replay", f, out]); run_results(ctx, out, "replay")
