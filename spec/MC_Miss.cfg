INIT Init
NEXT Next
CONSTANTS
  MaxSize = 8
INVARIANTS Exact CompleteIffNone IntervalsAgree Emit
CHECK_DEADLOCK FALSE
