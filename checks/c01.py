"""C01 Frame encode/decode round trip and delimiter transparency (DESIGN.md section 5, C01)."""
import json, os
import vlib

LEVEL = "model_checking"


def run_results(ctx, path, what):
    """Read a replayer's result file: mismatch lines + one summary line."""
    n = 0
    for r in vlib.read_nd(path, quoted=False):
        if r.get("summary"):
            ctx.note_impl(what, r["cases"], r.get("distinct"), classes=r.get("classes"))
            for s in r.get("samples") or []:
                ctx.sample({"from": what, "case": s})
            n = r["cases"]
        else:
            ctx.violation(r["sig"], r["detail"], {"kind": what, "case": r["case"]})
    return n


def trace_validate(ctx, module, trace, events, n_name, sig_of, timeout=1200):
    """I->S: validate recorded events with TLC; every violated invariant on event l is a violation."""
    res = ctx.tlc(module, env={"VERIF_TRACE": trace}, extra=["-continue"], allow_violation=True, timeout=timeout)
    bad = set()
    for inv, vs in res["violations"]:
        l = int(vs.get("l", "0"))
        e = events[l - 1] if 0 < l <= len(events) else {}
        bad.add(l)
        ctx.violation(sig_of(inv, e), "event %d rejected by %s!%s" % (l, module, inv), {"kind": n_name, "event": e})
    if res["distinct"] < len(events):
        raise vlib.ToolFailure("%s examined %d states for %d events:\n%s" % (module, res["distinct"], len(events), res["out"][-2000:]))
    if not res["ok"]:
        ctx.cov["states"] += res["distinct"]; ctx.cov["transitions"] += res["generated"]
    ctx.note_impl(n_name, len(events), accepted=len(events) - len(bad))
    return res


def check(ctx):
    thorough = ctx.tier == "thorough"
    ctx.build()
    # (M) + emission: exhaustive bounded model of the encoder/decoder pair
    cases = os.path.join(ctx.scratch, "c01_cases.ndjson")
    ctx.tlc("MC_FrameC01", constants={"MaxLenFull": 5 if thorough else 3, "MaxLenThin": 2 if thorough else 1},
            env={"VERIF_OUT": cases}, workers=12)
    # (S->I) replay every emitted case on Header.Encode / JTMessage.Decode
    res = os.path.join(ctx.scratch, "c01_res.ndjson")
    ctx.vh_ok(["c01-replay", cases, res])
    run_results(ctx, res, "spec-cases-replayed-on-Header.Encode")
    # (I->S) seeded random / boundary-length cases from the real code, validated by the spec
    n = 3000 if thorough else 400
    tr = os.path.join(ctx.scratch, "c01_trace.ndjson")
    ctx.vh_ok(["c01-gen", n, tr])
    events = vlib.read_nd(tr, quoted=False)
    trace_validate(ctx, "Trace_FrameC01", tr, events, "impl-events-validated-by-Trace_FrameC01",
                   lambda inv, e: "%s %s" % (inv, e.get("class", "?")))
    ctx.sample({"from": "impl-event", "class": events[0]["class"], "id": events[0]["id"], "pser": events[0]["pser"],
                "body_len": len(events[0]["body"]), "out_len": len(events[0]["out"])})
    ctx.cov["rule"] = ("TLC enumerates every (source header variant x reply id x platform serial x body over {7E,7D,01,02,00,41} "
                       "up to the bound, plus 4 checksum-forcing extensions per body); each case is distinct by construction. "
                       "Implementation events are seeded random bodies 0..1023 over all byte values.")
    ctx.cov["exhaustive"] = True
    ctx.assumptions += ["bodies longer than 1023 bytes and reply id 0 are outside the property",
                        "TLC, CommunityModules overrides and the harness adapters (harness/frame.go) are trusted"]


def replay(ctx, path):
    r = json.load(open(path))["replay"]
    ctx.build()
    if r["kind"].startswith("spec-cases"):
        f = os.path.join(ctx.scratch, "one.ndjson"); cs = r["case"] if isinstance(r["case"], list) else [r["case"]]     # a held frame and the case whose encoding changed it
        open(f, "w").write("".join(json.dumps(c) + "\n" for c in cs))
        out = os.path.join(ctx.scratch, "one_res.ndjson")
        ctx.vh_ok(["c01-replay", f, out]); run_results(ctx, out, "replay")
    else:
        f = os.path.join(ctx.scratch, "one.ndjson"); e = r["event"]
        open(f, "w").write(json.dumps({k: e[k] for k in ("src", "id", "pser", "body")} | {"out": []}) + "\n")
        out = os.path.join(ctx.scratch, "one_res.ndjson")
        ctx.vh_ok(["c01-replay", f, out])
        # the expected bytes come from the spec: re-validate the single event
        tr = os.path.join(ctx.scratch, "one_tr.ndjson"); open(tr, "w").write(json.dumps(e) + "\n")
        trace_validate(ctx, "Trace_FrameC01", tr, [e], "replay", lambda inv, ev: "%s %s" % (inv, ev.get("class", "?")))
