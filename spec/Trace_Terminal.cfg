INIT Init
NEXT Next
INVARIANTS Accepted Layout Canonical PredictedReply LiveReply BodyRoundTrip
CHECK_DEADLOCK FALSE
