package main

// C03: every decoder is a total function of its input bytes.  Targets = every exported message type
// (x header version x active-safety dialect where it matters), the vendor extension parsers, the
// frame decoder and the JT1078 packet decoder.  Cases come from spec/MC_Mutate.tla (all single
// mutations of valid seed bodies); each case runs in an isolation wrapper that observes the four
// failure classes: panic, non-termination, dependence on memory beyond the slice, dependence on
// what the receiver held from an earlier parse.

import (
	"encoding/hex"
	"encoding/json"
	"fmt"
	"os"
	"path/filepath"
	"reflect"
	"regexp"
	"sort"
	"strings"
	"sync"
	"sync/atomic"
	"time"

	"github.com/cuteLittleDevil/go-jt808/protocol/jt1078"
	"github.com/cuteLittleDevil/go-jt808/protocol/jt808"
	"github.com/cuteLittleDevil/go-jt808/protocol/model"
	"github.com/cuteLittleDevil/go-jt808/shared/consts"
	"github.com/cuteLittleDevil/go-jt808/terminal"
)

// a receiver that can decode a body and be rendered
type receiver interface {
	decode(body []byte) error
	snap() string
}

type modelRecv struct {
	h   modelHandler
	ver consts.ProtocolVersionType
}

type modelHandler interface {
	Parse(*jt808.JTMessage) error
}

func (r *modelRecv) decode(body []byte) error {
	m := jt808.NewJTMessage()
	m.Header.ProtocolVersion = r.ver
	if r.ver == consts.JT808Protocol2019 {
		m.Header.Property.Version = 1
	}
	m.Header.TerminalPhoneNo = "13800000001"
	m.Body = body
	return r.h.Parse(m)
}

func (r *modelRecv) obj() any { return r.h }

func (r *modelRecv) snap() string {
	b, err := json.Marshal(r.h)
	s := string(b)
	if err != nil {
		s = "json:" + err.Error()
	}
	if st, ok := r.h.(fmt.Stringer); ok {
		// String() renders unknown additional-information items in map-iteration order: compare the
		// text as a multiset of lines (totality of rendering is what is claimed, not the line order)
		lines := strings.Split(st.String(), "\n")
		sort.Strings(lines)
		s += "\n" + strings.Join(lines, "\n")
	}
	return s
}

type extLocation struct {
	model.T0x0200
	e64 model.T0x0200AdditionExtension0x64
	e65 model.T0x0200AdditionExtension0x65
	e66 model.T0x0200AdditionExtension0x66
	e67 model.T0x0200AdditionExtension0x67
	e70 model.T0x0200AdditionExtension0x70
}

func (l *extLocation) Parse(m *jt808.JTMessage) error {
	// the composite is harness code: it starts every parse with fresh extension objects (the library's
	// extension types are only asked to parse when their item is present)
	l.e64, l.e65, l.e66, l.e67, l.e70 = model.T0x0200AdditionExtension0x64{}, model.T0x0200AdditionExtension0x65{}, model.T0x0200AdditionExtension0x66{}, model.T0x0200AdditionExtension0x67{}, model.T0x0200AdditionExtension0x70{}
	l.T0x0200.CustomAdditionContentFunc = func(id uint8, content []byte) (model.AdditionContent, bool) {
		switch id {
		case 0x64:
			return l.e64.Parse(id, content)
		case 0x65:
			return l.e65.Parse(id, content)
		case 0x66:
			return l.e66.Parse(id, content)
		case 0x67:
			return l.e67.Parse(id, content)
		case 0x70:
			return l.e70.Parse(id, content)
		}
		return model.AdditionContent{}, false
	}
	return l.T0x0200.Parse(m)
}
func (l *extLocation) String() string {
	return l.T0x0200.String() + l.T0x0200AdditionDetails.String() + l.e64.String() + l.e65.String() + l.e66.String() + l.e67.String() + l.e70.String()
}

type frameRecv struct{ m *jt808.JTMessage }

func (r *frameRecv) obj() any              { return r.m }
func (r *frameRecv) decode(b []byte) error { return r.m.Decode(b) }
func (r *frameRecv) snap() string {
	return fmt.Sprintf("%d %v %x %s", r.m.Header.ID, *r.m.Header.Property, r.m.Body, r.m.Header.String())
}

type rtpRecv struct {
	p    *jt1078.Packet
	rest []byte
}

func (r *rtpRecv) obj() any { return r.p }

func (r *rtpRecv) decode(b []byte) error {
	rest, err := r.p.Decode(b)
	r.rest = rest
	return err
}
func (r *rtpRecv) snap() string {
	p := r.p
	return fmt.Sprintf("%s body=%x fields=%v/%v/%v/%v/%v/%v/%v/%v/%v/%v/%v", p.String(), p.Body, p.ID, p.Flag, p.Seq, p.Sim, p.LogicChannel,
		p.DataType, p.SubcontractType, p.Timestamp, p.LastIFrameInterval, p.LastFrameInterval, p.DataBodyLen)
}

type target struct {
	name     string
	id       int // message id (0 for non-model targets)
	vers     []consts.ProtocolVersionType
	dialects []consts.ActiveSafetyType
	mk       func(ver consts.ProtocolVersionType, d consts.ActiveSafetyType) receiver
}

var allVers = []consts.ProtocolVersionType{consts.JT808Protocol2013, consts.JT808Protocol2019}
var oneVer = []consts.ProtocolVersionType{consts.JT808Protocol2013}
var allDialects = []consts.ActiveSafetyType{consts.ActiveSafetyJS, consts.ActiveSafetyHLJ, consts.ActiveSafetyGD, consts.ActiveSafetyHN, consts.ActiveSafetySC}
var noDialect = []consts.ActiveSafetyType{consts.ActiveSafetyJS}

func mt(name string, id int, vers []consts.ProtocolVersionType, f func() modelHandler) target {
	return target{name: name, id: id, vers: vers, dialects: noDialect,
		mk: func(v consts.ProtocolVersionType, _ consts.ActiveSafetyType) receiver {
			return &modelRecv{h: f(), ver: v}
		}}
}

func targets() []target {
	ts := []target{
		mt("T0x0001", 0x0001, oneVer, func() modelHandler { return &model.T0x0001{} }),
		mt("T0x0002", 0x0002, oneVer, func() modelHandler { return &model.T0x0002{} }),
		mt("T0x0100", 0x0100, []consts.ProtocolVersionType{consts.JT808Protocol2011, consts.JT808Protocol2013, consts.JT808Protocol2019}, func() modelHandler { return &model.T0x0100{} }),
		mt("T0x0102", 0x0102, allVers, func() modelHandler { return &model.T0x0102{} }),
		mt("T0x0104", 0x0104, oneVer, func() modelHandler { return &model.T0x0104{} }),
		mt("T0x0200", 0x0200, oneVer, func() modelHandler { return &model.T0x0200{} }),
		mt("T0x0200+ext", 0x0200, oneVer, func() modelHandler { return &extLocation{} }),
		mt("T0x0704", 0x0704, oneVer, func() modelHandler { return &model.T0x0704{} }),
		mt("T0x0800", 0x0800, oneVer, func() modelHandler { return &model.T0x0800{} }),
		mt("T0x0801", 0x0801, oneVer, func() modelHandler { return &model.T0x0801{} }),
		mt("T0x0805", 0x0805, oneVer, func() modelHandler { return &model.T0x0805{} }),
		mt("T0x1003", 0x1003, oneVer, func() modelHandler { return &model.T0x1003{} }),
		mt("T0x1005", 0x1005, oneVer, func() modelHandler { return &model.T0x1005{} }),
		mt("T0x1205", 0x1205, oneVer, func() modelHandler { return &model.T0x1205{} }),
		mt("T0x1206", 0x1206, oneVer, func() modelHandler { return &model.T0x1206{} }),
		mt("T0x1211", 0x1211, oneVer, func() modelHandler { return &model.T0x1211{} }),
		mt("T0x1212", 0x1212, oneVer, func() modelHandler { return &model.T0x1212{} }),
		mt("P0x8001", 0x8001, oneVer, func() modelHandler { return &model.P0x8001{} }),
		mt("P0x8003", 0x8003, oneVer, func() modelHandler { return &model.P0x8003{} }),
		mt("P0x8100", 0x8100, oneVer, func() modelHandler { return &model.P0x8100{} }),
		mt("P0x8103", 0x8103, oneVer, func() modelHandler { return &model.P0x8103{} }),
		mt("P0x8104", 0x8104, oneVer, func() modelHandler { return &model.P0x8104{} }),
		mt("P0x8800", 0x8800, oneVer, func() modelHandler { return &model.P0x8800{} }),
		mt("P0x8801", 0x8801, oneVer, func() modelHandler { return &model.P0x8801{} }),
		mt("P0x9003", 0x9003, oneVer, func() modelHandler { return &model.P0x9003{} }),
		mt("P0x9101", 0x9101, oneVer, func() modelHandler { return &model.P0x9101{} }),
		mt("P0x9102", 0x9102, oneVer, func() modelHandler { return &model.P0x9102{} }),
		mt("P0x9105", 0x9105, oneVer, func() modelHandler { return &model.P0x9105{} }),
		mt("P0x9201", 0x9201, oneVer, func() modelHandler { return &model.P0x9201{} }),
		mt("P0x9202", 0x9202, oneVer, func() modelHandler { return &model.P0x9202{} }),
		mt("P0x9205", 0x9205, oneVer, func() modelHandler { return &model.P0x9205{} }),
		mt("P0x9206", 0x9206, oneVer, func() modelHandler { return &model.P0x9206{} }),
		mt("P0x9207", 0x9207, oneVer, func() modelHandler { return &model.P0x9207{} }),
		mt("P0x9212", 0x9212, oneVer, func() modelHandler { return &model.P0x9212{} }),
	}
	ts = append(ts, target{name: "T0x1210", id: 0x1210, vers: oneVer, dialects: allDialects,
		mk: func(v consts.ProtocolVersionType, d consts.ActiveSafetyType) receiver {
			t := &model.T0x1210{}
			t.P9208AlarmSign.ActiveSafetyType = d
			return &modelRecv{h: t, ver: v}
		}})
	ts = append(ts, target{name: "P0x9208", id: 0x9208, vers: oneVer, dialects: allDialects,
		mk: func(v consts.ProtocolVersionType, d consts.ActiveSafetyType) receiver {
			t := &model.P0x9208{}
			t.P9208AlarmSign.ActiveSafetyType = d
			return &modelRecv{h: t, ver: v}
		}})
	ts = append(ts, target{name: "jt808.Decode", vers: oneVer, dialects: noDialect,
		mk: func(consts.ProtocolVersionType, consts.ActiveSafetyType) receiver {
			return &frameRecv{m: jt808.NewJTMessage()}
		}})
	ts = append(ts, target{name: "jt1078.Decode", vers: oneVer, dialects: noDialect,
		mk: func(consts.ProtocolVersionType, consts.ActiveSafetyType) receiver {
			return &rtpRecv{p: jt1078.NewPacket()}
		}})
	return ts
}

type c03Case struct {
	T       string `json:"t"`
	Ver     int    `json:"ver"`
	Dialect int    `json:"dialect"`
	Body    B      `json:"body"`
	Prefix  B      `json:"prefix"` // a body the reused receiver parses first
	Kind    string `json:"kind,omitempty"`
}

// outcome of one decode in isolation
type oc struct {
	panic_  string
	timeout bool
	err     bool
	snap    string
}

// collectStrings: every string value reachable from v (a string is immutable: whatever is decoded into one is the caller's for good)
func collectStrings(v reflect.Value, depth int, out *[]string) {
	if depth > 8 || !v.IsValid() {
		return
	}
	switch v.Kind() {
	case reflect.String:
		*out = append(*out, strings.Clone(v.String()))
	case reflect.Pointer, reflect.Interface:
		if !v.IsNil() {
			collectStrings(v.Elem(), depth+1, out)
		}
	case reflect.Struct:
		for i := 0; i < v.NumField(); i++ {
			collectStrings(v.Field(i), depth+1, out)
		}
	case reflect.Slice, reflect.Array:
		if v.Kind() == reflect.Slice && v.Type().Elem().Kind() == reflect.Uint8 {
			return
		}
		for i := 0; i < v.Len() && i < 300; i++ {
			collectStrings(v.Index(i), depth+1, out)
		}
	case reflect.Map:
		keys := v.MapKeys()
		sort.Slice(keys, func(i, j int) bool { return fmt.Sprint(keys[i]) < fmt.Sprint(keys[j]) })
		for _, k := range keys {
			collectStrings(v.MapIndex(k), depth+1, out)
		}
	}
}

func runDecode(r receiver, body []byte) oc {
	done := make(chan oc, 1)
	go func() {
		var o oc
		o.panic_ = protect(func() {
			err := r.decode(body)
			o.err = err != nil
			if err == nil {
				o.snap = r.snap() // rendering a successfully parsed value must be total as well
			}
		})
		done <- o
	}()
	select {
	case o := <-done:
		return o
	case <-time.After(3 * time.Second):
		return oc{timeout: true}
	}
}

func (o oc) String() string {
	switch {
	case o.panic_ != "":
		return "panic:" + o.panic_
	case o.timeout:
		return "timeout"
	case o.err:
		return "err"
	}
	return "val:" + o.snap
}

// diffWindow shows where two renderings first differ
func diffWindow(a, b string) string {
	i := 0
	for i < len(a) && i < len(b) && a[i] == b[i] {
		i++
	}
	lo := i - 60
	if lo < 0 {
		lo = 0
	}
	cut := func(s string) string {
		hi := i + 90
		if hi > len(s) {
			hi = len(s)
		}
		if lo > len(s) {
			return ""
		}
		return strings.ReplaceAll(s[lo:hi], "\n", " ")
	}
	return fmt.Sprintf("first difference at %d: ...%s... vs ...%s...", i, cut(a), cut(b))
}

func withTail(body []byte, fill byte) []byte {
	buf := make([]byte, len(body)+96)
	copy(buf, body)
	for i := len(body); i < len(buf); i++ {
		fill = fill*31 + 7
		buf[i] = fill
	}
	return buf[:len(body)]
}

// seeds -------------------------------------------------------------------------------------------

func testCaptures() map[int][][]byte { // bodies of the frames quoted in the repository's own test files, by id
	out := map[int][][]byte{}
	re := regexp.MustCompile(`"(7[eE][0-9a-fA-F]{20,}7[eE])"`)
	files, _ := filepath.Glob("/repo/protocol/model/*_test.go")
	more, _ := filepath.Glob("/repo/protocol/jt808/*_test.go")
	for _, f := range append(files, more...) {
		src, err := os.ReadFile(f)
		if err != nil {
			continue
		}
		for _, m := range re.FindAllSubmatch(src, -1) {
			raw, err := hex.DecodeString(string(m[1]))
			if err != nil {
				continue
			}
			msg := jt808.NewJTMessage()
			if msg.Decode(raw) == nil {
				out[int(msg.Header.ID)] = append(out[int(msg.Header.ID)], append([]byte{}, msg.Body...))
				out[-1] = append(out[-1], raw) // frames
			}
		}
	}
	return out
}

func init() {
	// c03-seeds <out>: one line per (target, ver, dialect, valid body)
	cmds["c03-seeds"] = func(a []string) {
		out := newND(a[0])
		defer out.close()
		caps := testCaptures()
		sim := map[int][][]byte{}
		for _, ver := range []consts.ProtocolVersionType{consts.JT808Protocol2011, consts.JT808Protocol2013, consts.JT808Protocol2019} {
			t := terminal.New(terminal.WithHeader(ver, "13800000001"))
			for _, tg := range targets() {
				if tg.id == 0 {
					continue
				}
				data := t.CreateDefaultCommandData(consts.JT808CommandType(tg.id))
				if data == nil {
					continue
				}
				m := jt808.NewJTMessage()
				if m.Decode(data) == nil {
					sim[tg.id] = append(sim[tg.id], append([]byte{}, m.Body...))
				}
			}
		}
		// valid bodies generated from the specification's layouts (MC_Layouts cases), per version / dialect:
		// the captures and the simulator only know the 2013 / JS forms
		extra := map[string][][]byte{}
		if len(a) > 1 {
			if err := readND(a[1], func(i int, raw []byte) error {
				var c lCase
				if err := jsonUnmarshal(raw, &c); err != nil {
					return err
				}
				base, ver, dia := c.Type, consts.JT808Protocol2013, consts.ActiveSafetyJS
				if i := strings.LastIndex(c.Type, "_"); i > 0 && len(c.Type) == i+3 {
					base = c.Type[:i]
					if c.Type[i+1] == 'v' {
						ver = consts.ProtocolVersionType(c.Type[i+2] - '0')
					} else {
						dia = consts.ActiveSafetyType(c.Type[i+2] - '0')
					}
				}
				k := fmt.Sprintf("%s/v%d/d%d", base, ver, dia)
				if n := len(extra[k]); len(c.Body) > 400 {
					// long lists belong to C07; mutation seeds stay small
				} else if n < 2 || (n < 6 && len(c.Body) > len(extra[k][n-1])) { // the base value and some longer ones
					extra[k] = append(extra[k], c.Body)
				}
				return nil
			}); err != nil {
				die(err)
			}
		}
		r := newRand(303)
		for _, tg := range targets() {
			var bodies [][]byte
			switch tg.name {
			case "jt808.Decode":
				bodies = caps[-1]
				if len(bodies) > 12 {
					bodies = bodies[:12]
				}
				// fragmented frames of both header versions (the captures have none): what a reused JTMessage has seen before
				// a plain frame must not show in how the plain frame is decoded
				for ver := 0; ver < 2; ver++ {
					bodies = append(bodies, buildFrame(hdrSpec{id: 0x0801, serial: 7, ver: ver, verbyte: 1, frag: 1, total: 3, no: 2, phone: randPhone(r, ver), body: []byte{1, 2, 3}}),
						buildFrame(hdrSpec{id: 0x0002, serial: 8, ver: ver, verbyte: 1, phone: randPhone(r, ver)}),
						// package words a terminal should not send, and the decoder accepts: total 0, number 0, number beyond the total
						buildFrame(hdrSpec{id: 0x0200, serial: 9, ver: ver, verbyte: 1, frag: 1, total: 0, no: 0, phone: randPhone(r, ver), body: []byte{4}}),
						buildFrame(hdrSpec{id: 0x0200, serial: 10, ver: ver, verbyte: 1, frag: 1, total: 0, no: 5, phone: randPhone(r, ver), body: []byte{5}}),
						buildFrame(hdrSpec{id: 0x0200, serial: 11, ver: ver, verbyte: 1, frag: 1, total: 65535, no: 65535, phone: randPhone(r, ver), body: []byte{6}}))
				}
			case "jt1078.Decode": // one short packet per data type (video I/P/B, audio, transparent, reserved)
				want := []int{0, 1, 2, 3, 4, 9}
				for len(want) > 0 {
					p := randRtp(r)
					if int(p[15]>>4) == want[0] && len(p) < 80 {
						bodies = append(bodies, p)
						want = want[1:]
					}
				}
				// the same packet with an all-zero SIM and with a SIM that differs in one byte only
				z := append([]byte{}, bodies[3]...)
				copy(z[8:14], []byte{0, 0, 0, 0, 0, 0})
				y := append([]byte{}, bodies[3]...)
				y[8] ^= 0x10
				bodies = append(bodies, z, y)
			default:
				bodies = append(append([][]byte{}, caps[tg.id]...), sim[tg.id]...)
			}
			// location reports: every additional-information item of every seed also on its own, as the
			// last item of the body (an item decoder reading past its content then leaves the slice)
			if tg.id == 0x0200 {
				var single [][]byte
				for _, b := range bodies {
					for i := 28; i+2 <= len(b); {
						end := i + 2 + int(b[i+1])
						if end > len(b) {
							break
						}
						single = append(single, append(append([]byte{}, b[:28]...), b[i:end]...))
						i = end
					}
				}
				sort.Slice(single, func(i, j int) bool { return len(single[i]) > len(single[j]) })
				bodies = append(single, bodies...)
			}
			// de-duplicate, keep the 6 longest + 2 shortest (structure-rich and minimal)
			seen := map[string]bool{}
			var uniq [][]byte
			for _, b := range bodies {
				if !seen[string(b)] && len(b) <= 400 {
					seen[string(b)] = true
					uniq = append(uniq, b)
				}
			}
			sort.Slice(uniq, func(i, j int) bool { return len(uniq[i]) > len(uniq[j]) })
			limit := map[bool]int{true: 40, false: 8}[tg.id == 0x0200]
			if tg.id == 0 {
				limit = 16 // frame / packet decoders: few seeds, all wanted (the history test pairs them all)
			}
			if len(uniq) > limit {
				uniq = append(uniq[:limit-2], uniq[len(uniq)-2:]...)
			}
			if len(uniq) == 0 {
				uniq = [][]byte{{}}
			}
			for _, v := range tg.vers {
				for _, d := range tg.dialects {
					have := map[string]bool{}
					for _, b := range append(append([][]byte{}, uniq...), extra[fmt.Sprintf("%s/v%d/d%d", tg.name, v, d)]...) {
						// keep only seeds the decoder accepts (or the empty seed)
						if o := runDecode(tg.mk(v, d), exact(b)); o.err && len(b) > 0 && tg.id != 0 {
							continue
						}
						if have[string(b)] {
							continue
						}
						have[string(b)] = true
						out.put(c03Case{T: tg.name, Ver: int(v), Dialect: int(d), Body: b, Prefix: B{}})
					}
				}
			}
		}
	}

	// c03-replay <cases> <out>
	cmds["c03-replay"] = func(a []string) {
		os.Stdout, _ = os.Open(os.DevNull)
		out := newND(a[1])
		defer out.close()
		byName := map[string]target{}
		for _, t := range targets() {
			byName[t.name] = t
		}
		n := 0
		classes := map[string]int{}
		distinct := map[string]bool{}
		var samples []any
		seenSig := map[string]int{}
		// predecessors for the history test: the valid seeds of the same target (all of them for a seed
		// case, one in rotation for a mutant) and the previously accepted body
		last := map[string][]byte{}
		seedsOf := map[string][][]byte{}
		// a value handed out by a decoder belongs to the caller: it is held while the following cases are
		// decoded (by fresh receivers) and rendered again
		var heldR receiver
		var heldSnap, heldKey string
		var heldBody []byte
		if len(a) > 2 {
			readND(a[2], func(i int, raw []byte) error {
				var c c03Case
				if jsonUnmarshal(raw, &c) == nil {
					k := fmt.Sprintf("%s/v%d/d%d", c.T, c.Ver, c.Dialect)
					seedsOf[k] = append(seedsOf[k], c.Body)
				}
				return nil
			})
		}
		err := readND(a[0], func(i int, raw []byte) error {
			var c c03Case
			if err := jsonUnmarshal(raw, &c); err != nil {
				return err
			}
			tg, ok := byName[c.T]
			if !ok {
				return fmt.Errorf("unknown target %s", c.T)
			}
			n++
			v, d := consts.ProtocolVersionType(c.Ver), consts.ActiveSafetyType(c.Dialect)
			key := fmt.Sprintf("%s/v%d/d%d", c.T, c.Ver, c.Dialect)
			baseR := tg.mk(v, d)
			base := runDecode(baseR, exact(c.Body))
			cls := "accepts"
			if base.err {
				cls = "rejects"
			}
			classes[c.T+" "+cls]++
			distinct[fmt.Sprintf("%s|%s|%s|%d", key, c.Kind, cls, len(c.Body))] = true
			if len(samples) < 4 && c.Kind != "" && n%997 == 1 {
				samples = append(samples, c)
			}
			if c.T == "T0x0200+ext" { // name the vendor extension items present: findings are per item decoder
				ids := ""
				for i := 28; i+2 <= len(c.Body); {
					if c.Body[i] >= 0x64 && c.Body[i] <= 0x70 {
						ids += fmt.Sprintf("%02x", c.Body[i])
					}
					i += 2 + int(c.Body[i+1])
				}
				if ids != "" {
					key += " ext-items=" + ids
				}
			}
			report := func(sig, detail string) {
				seenSig[sig]++
				if seenSig[sig] <= 3 {
					out.put(mismatch{sig, detail, c})
				}
			}
			switch {
			case base.panic_ != "":
				report(fmt.Sprintf("decoder-panic %s", key), fmt.Sprintf("%s on %x", base.panic_, []byte(c.Body)))
				return nil
			case base.timeout:
				report(fmt.Sprintf("decoder-does-not-terminate %s", key), fmt.Sprintf("%x", []byte(c.Body)))
				return nil
			}
			// memory beyond the slice: same bytes, spare capacity with two different tails
			t1 := runDecode(tg.mk(v, d), withTail(c.Body, 0xAA))
			t2 := runDecode(tg.mk(v, d), withTail(c.Body, 0x55))
			if t1.String() != base.String() || t2.String() != base.String() {
				report(fmt.Sprintf("depends-on-memory-beyond-slice %s", key),
					fmt.Sprintf("exact capacity vs spare capacity: %s | %s (body %x)", diffWindow(base.String(), t1.String()), diffWindow(base.String(), t2.String()), []byte(c.Body)))
				return nil
			}
			// the strings of a decoded value do not change when the caller re-uses the buffer it decoded from
			if ob, ok := tg.mk(v, d).(interface{ obj() any }); ok && !base.err && n%2 == 0 {
				r2 := ob.(receiver)
				in2 := exact(c.Body)
				if o2 := runDecode(r2, in2); !o2.err && o2.panic_ == "" && !o2.timeout {
					var s1, s2 []string
					collectStrings(reflect.ValueOf(ob.obj()), 0, &s1)
					for k := range in2 {
						in2[k] ^= 0xff
					}
					collectStrings(reflect.ValueOf(ob.obj()), 0, &s2)
					if strings.Join(s1, "\x00") != strings.Join(s2, "\x00") {
						report(fmt.Sprintf("decoded-string-changes-with-the-callers-buffer %s", key), diffWindow(strings.Join(s1, "|"), strings.Join(s2, "|")))
					}
				}
			}
			if heldR != nil {
				now := ""
				if p := protect(func() { now = heldR.snap() }); p != "" {
					now = "panic:" + p
				}
				if now != heldSnap {
					report(fmt.Sprintf("decoded-value-changed-by-a-later-decode %s", heldKey),
						fmt.Sprintf("value decoded from %x, rendered again after decoding %s %x: %s", heldBody, key, []byte(c.Body), diffWindow(heldSnap, now)))
				}
				heldR = nil
			}
			if !base.err && n%3 == 0 {
				// rendering may itself normalise the value (P0x9208's Encode pads a short reserve): the value
				// is held once two successive renderings agree
				ref, prevRef := "", base.snap
				for k := 0; k < 4; k++ {
					if protect(func() { ref = baseR.snap() }) != "" {
						break
					}
					if ref == prevRef {
						heldR, heldSnap, heldKey, heldBody = baseR, ref, key, append([]byte{}, c.Body...)
						break
					}
					prevRef = ref
				}
			}
			// history: a receiver that already parsed another body of the same target
			prev, has := last[key]
			if !base.err {
				last[key] = append([]byte{}, c.Body...)
			}
			var preds [][]byte
			if has {
				preds = append(preds, prev)
			}
			skey := fmt.Sprintf("%s/v%d/d%d", c.T, c.Ver, c.Dialect)
			if ss := seedsOf[skey]; len(ss) > 0 {
				if c.Kind == "seed" {
					preds = append(preds, ss...)
				} else {
					preds = append(preds, ss[n%len(ss)])
				}
			}
			for _, pb := range preds {
				r := tg.mk(v, d)
				runDecode(r, exact(pb))
				again := runDecode(r, exact(c.Body))
				if again.String() != base.String() {
					report(fmt.Sprintf("depends-on-earlier-parse %s", key),
						fmt.Sprintf("fresh vs reused receiver (after %x): %s", pb, diffWindow(base.String(), again.String())))
					break
				}
			}
			return nil
		})
		if err != nil {
			die(err)
		}
		// decoders are functions of their input also when several goroutines decode at once (every connection decodes on its own
		// goroutine): the valid frames and packets of the seeds, decoded concurrently, give what they give one at a time
		for _, tn := range []string{"jt808.Decode", "jt1078.Decode"} {
			var inputs [][]byte
			var want []string
			for k, bodies := range seedsOf {
				if !strings.HasPrefix(k, tn+"/") {
					continue
				}
				for _, b := range bodies {
					if o := runDecode(byName[tn].mk(consts.JT808Protocol2013, consts.ActiveSafetyJS), exact(b)); !o.err && o.panic_ == "" && !o.timeout {
						inputs, want = append(inputs, b), append(want, o.snap)
					}
				}
			}
			if len(inputs) < 2 {
				continue
			}
			var wg sync.WaitGroup
			var bad atomic.Value
			for g := 0; g < 8; g++ {
				wg.Add(1)
				go func(g int) {
					defer wg.Done()
					for i := 0; i < 4000 && bad.Load() == nil; i++ {
						k := (i*7 + g) % len(inputs)
						r := byName[tn].mk(consts.JT808Protocol2013, consts.ActiveSafetyJS)
						var got string
						if p := protect(func() {
							if err := r.decode(exact(inputs[k])); err == nil {
								got = r.snap()
							}
						}); p != "" {
							got = "panic:" + p
						}
						if got != want[k] {
							bad.Store(fmt.Sprintf("input %x: alone %s, among concurrent decodes %s", inputs[k], diffWindow(want[k], got), ""))
						}
					}
				}(g)
			}
			wg.Wait()
			if b := bad.Load(); b != nil {
				out.put(mismatch{"concurrent-decodes-differ " + tn, b.(string), c03Case{T: tn, Ver: 1, Dialect: 1, Body: inputs[0], Kind: "seed"}})
			}
		}
		out.put(summary{Summary: true, Cases: n, Distinct: len(distinct), Classes: classes, Samples: samples})
	}
}

var _ = strings.Join
