"""Shared machinery of the /verif checks (python3 stdlib only).

A check is a function check(ctx) in checks/<id>.py.  It drives three things:
  ctx.tlc(...)   - run TLC on a module of /verif/spec in a scratch copy
  ctx.vh(...)    - run the Go harness, built from /repo's working tree with -tags verif
  ctx.violation(signature, detail, replay) / ctx.note(...)
and ctx.finish() writes the evidence file and maps the outcome to the exit code:
  0 held (known findings are printed as KNOWN-FINDING lines), 1 VIOLATION, 2 tooling failure.
"""
import json, os, re, shutil, subprocess, sys, tempfile, time, hashlib

VERIF = os.path.dirname(os.path.dirname(os.path.abspath(__file__)))
SPEC = os.path.join(VERIF, "spec")
HARNESS = os.path.join(VERIF, "harness")
EVID = os.path.join(VERIF, "evidence")
TLA_CP = "/opt/veriftools/tla/tla2tools.jar:/opt/veriftools/tla/CommunityModules-deps.jar"

GOENV = {"GOFLAGS": "-mod=mod", "GOPROXY": "off", "GOSUMDB": "off", "GOTOOLCHAIN": "local"}


class ToolFailure(Exception):
    pass


def unq(line):
    """A line written by CSVWrite("%1$s", <<ToJson(x)>>) is a TLA-quoted JSON string."""
    line = line.strip()
    if not line:
        return None
    if line[0] == '"':
        line = json.loads(line)
    return json.loads(line)


class Ctx:
    def __init__(self, prop, tier, seed, level="model_checking"):
        self.prop, self.tier, self.seed, self.level = prop, tier, seed, level
        self.t0 = time.time()
        self.scratch = tempfile.mkdtemp(prefix="verif_%s_" % prop)
        self.viol = []          # (signature, detail, replay_path)
        self.known_hits = {}    # signature -> count
        self.cov = {"states": 0, "transitions": 0, "traces_validated_against_impl": 0, "samples": [],
                    "evaluations": 0, "distinct_nontrivial": 0, "rule": "", "tlc_runs": [], "impl_runs": []}
        self.assumptions = []
        self.vhbin = None
        self.known = [k for k in json.load(open(os.path.join(VERIF, "known_findings.json")))["findings"]
                      if k.get("status") == "open"]
        self.replay_dir = os.path.join(EVID, "replay", prop)

    # ------------------------------------------------------------------ build
    def build(self, race=False):
        out = os.path.join(self.scratch, "vh_race" if race else "vh")
        if os.path.exists(out):
            return out
        env = dict(os.environ); env.update(GOENV)
        cmd = ["go", "build", "-tags", "verif"] + (["-race"] if race else []) + ["-o", out, "."]
        src = HARNESS
        alt = os.environ.get("VERIF_REPO_ALT")
        if alt:
            # development aid only (never set by a registered command): build against a scratch copy of the repository,
            # so that seeded changes can be tried in parallel without touching /repo
            src = os.path.join(self.scratch, "harness_alt")
            if not os.path.exists(src):
                shutil.copytree(HARNESS, src)
                gm = open(os.path.join(src, "go.mod")).read().replace("=> /repo/", "=> %s/" % alt.rstrip("/"))
                open(os.path.join(src, "go.mod"), "w").write(gm)
        r = subprocess.run(cmd, cwd=src, env=env, capture_output=True, text=True, timeout=900)
        if r.returncode != 0:
            raise ToolFailure("harness build failed:\n" + r.stdout + r.stderr)
        if not race:
            self.vhbin = out
        return out

    def vh(self, args, timeout=600, race=False, env=None, stdin=None, cwd=None):
        b = self.build(race)
        e = dict(os.environ)
        e["VERIF_SEED"] = str(self.seed)
        if env:
            e.update(env)
        try:
            r = subprocess.run([b] + [str(a) for a in args], capture_output=True, text=True, timeout=timeout,
                               env=e, input=stdin, cwd=cwd or self.scratch)
        except subprocess.TimeoutExpired:
            raise ToolFailure("harness timed out: %s" % (args,))
        return r

    def vh_ok(self, args, **kw):
        r = self.vh(args, **kw)
        if r.returncode != 0:
            raise ToolFailure("harness %s failed rc=%d:\n%s\n%s" % (args, r.returncode, r.stdout[-3000:], r.stderr[-3000:]))
        return r

    # ------------------------------------------------------------------ TLC
    def tlc(self, module, cfg=None, constants=None, env=None, workers=12, timeout=1500, extra=None,
            heap="6g", deque=False, name=None, allow_violation=False):
        """Run TLC on spec/<module>.tla with spec/<cfg>.cfg (default <module>.cfg); `constants`
        (dict) rewrites `NAME = value` lines of the cfg.  Returns dict with states/distinct/ok/...."""
        name = name or (cfg or module)
        d = os.path.join(self.scratch, "tlc_" + re.sub(r"\W", "_", name) + "_%d" % len(self.cov["tlc_runs"]))
        os.makedirs(d)
        for f in os.listdir(SPEC):
            if f.endswith(".tla"):
                shutil.copy(os.path.join(SPEC, f), d)
        cfgtxt = open(os.path.join(SPEC, (cfg or module) + ".cfg")).read()
        for k, v in (constants or {}).items():
            cfgtxt, n = re.subn(r"(?m)^(\s*%s\s*=\s*).*$" % re.escape(k), lambda m: m.group(1) + str(v), cfgtxt)
            if n == 0:
                raise ToolFailure("constant %s not in cfg %s" % (k, cfg or module))
        open(os.path.join(d, module + ".cfg"), "w").write(cfgtxt)
        e = dict(os.environ)
        jopts = "-Xmx%s -Xss256m" % heap
        if deque:
            jopts += " -Dtlc2.tool.queue.IStateQueue=StateDeque"
        e["JAVA_TOOL_OPTIONS"] = jopts
        if env:
            e.update({k: str(v) for k, v in env.items()})
        # -Xss on the command line (not JAVA_TOOL_OPTIONS) also sizes the main thread, which computes initial states
        cmd = ["java", "-Xss256m", "-XX:+UseParallelGC", "-cp", TLA_CP, "tlc2.TLC", "-workers", str(workers),
               "-metadir", os.path.join(d, "meta"), "-seed", str(self.seed)] + (extra or []) + [module]
        t = time.time()
        try:
            r = subprocess.run(cmd, cwd=d, env=e, capture_output=True, text=True, timeout=timeout)
        except subprocess.TimeoutExpired:
            raise ToolFailure("TLC timed out on %s" % name)
        out = r.stdout + r.stderr
        res = {"name": name, "rc": r.returncode, "out": out, "dir": d, "wall_s": round(time.time() - t, 1)}
        m = re.search(r"(\d[\d,]*) states generated, (\d[\d,]*) distinct states found", out)
        res["generated"] = int(m.group(1).replace(",", "")) if m else 0
        res["distinct"] = int(m.group(2).replace(",", "")) if m else 0
        m = re.search(r"depth of the complete state graph search is (\d+)", out)
        res["depth"] = int(m.group(1)) if m else 0
        res["ok"] = (r.returncode == 0 and "No error has been found" in out)
        m = re.search(r"Invariant (\S+) is violated", out)
        res["violated"] = m.group(1) if m else None
        if not m:
            m = re.search(r"(Action property|Temporal properties?) (\S+)? ?(is|were) violated", out)
            if m:
                res["violated"] = m.group(2) or "temporal"
        # with -continue TLC reports every violating state: collect (invariant, {var: value}) pairs
        res["violations"] = []
        for blk in re.split(r"Error: Invariant ", out)[1:]:
            inv = blk.split(" ", 1)[0]
            m2 = re.search(r"is violated\.(.*?)(?=\nError: Invariant |\Z)", blk, re.S)
            states = re.findall(r"State \d+: [^\n]*\n(.*?)(?=\n\nState |\n\n|\Z)", m2.group(1) if m2 else "", re.S)
            last = states[-1] if states else ""
            vs = {}
            for mm in re.finditer(r"(?m)^/?\\? ?(\w+) = (.*)$", last):
                vs[mm.group(1)] = mm.group(2).strip()
            res["violations"].append((inv, vs))
        shutil.rmtree(os.path.join(d, "meta"), ignore_errors=True)
        self.cov["tlc_runs"].append({k: res[k] for k in ("name", "generated", "distinct", "depth", "wall_s", "ok")})
        if res["ok"]:
            self.cov["states"] += res["distinct"]
            self.cov["transitions"] += res["generated"]
        elif not (allow_violation and res["violated"]):
            errs = "\n".join(l for l in out.splitlines() if l.startswith("Error:") or "line " in l and "col " in l)[:1500]
            raise ToolFailure("TLC run %s did not complete cleanly (rc=%d):\n%s\n...\n%s" % (name, r.returncode, errs, out[-1200:]))
        return res

    # ------------------------------------------------------------------ verdicts
    def match_known(self, signature):
        for k in self.known:
            if k["property"] == self.prop and k["signature"] == signature:
                return k
        return None

    def violation(self, signature, detail, replay=None):
        k = self.match_known(signature)
        if k:
            self.known_hits[signature] = self.known_hits.get(signature, 0) + 1
            return False
        if any(v[0] == signature for v in self.viol) and len(self.viol) > 20:
            return True
        os.makedirs(self.replay_dir, exist_ok=True)
        h = hashlib.sha1((signature + json.dumps(replay, sort_keys=True, default=str)).encode()).hexdigest()[:10]
        path = os.path.join(self.replay_dir, "%s_%s.json" % (re.sub(r"\W+", "_", signature)[:60], h))
        json.dump({"property": self.prop, "signature": signature, "detail": detail, "seed": self.seed,
                   "tier": self.tier, "replay": replay}, open(path, "w"), indent=1, default=str)
        self.viol.append((signature, detail, path))
        return True

    def sample(self, x, cap=6):
        if len(self.cov["samples"]) < cap:
            self.cov["samples"].append(x)

    def note_impl(self, name, n, distinct=None, **kw):
        d = {"name": name, "cases": n}
        d.update(kw)
        self.cov["impl_runs"].append(d)
        self.cov["traces_validated_against_impl"] += n
        self.cov["evaluations"] += n
        self.cov["distinct_nontrivial"] += (distinct if distinct is not None else n)

    # ------------------------------------------------------------------ end
    def finish(self, tool_failure=None):
        wall = round(time.time() - self.t0, 1)
        os.makedirs(EVID, exist_ok=True)
        cov = dict(self.cov)
        cov["known_findings_hit"] = self.known_hits
        if tool_failure:
            cov["tool_failure"] = tool_failure[-2000:]
        if not cov["samples"]:
            cov["samples"] = ["(no sample recorded)"]
        ev = {"property_id": self.prop, "tier": self.tier, "seed": self.seed, "level": self.level,
              "coverage": cov, "assumptions": self.assumptions, "wall_s": wall, "violations": len(self.viol)}
        json.dump(ev, open(os.path.join(EVID, self.prop + ".json"), "w"), indent=1, default=str)
        shutil.rmtree(self.scratch, ignore_errors=True)
        for sig, n in sorted(self.known_hits.items()):
            k = self.match_known(sig)
            print("KNOWN-FINDING: property=%s %s (%s; %d occurrence(s) this run)" % (self.prop, sig, k["description"], n))
        if tool_failure:
            print("TOOL-FAILURE property=%s: %s" % (self.prop, tool_failure[-3000:]), file=sys.stderr)
            return 2
        if self.viol:
            seen = set()
            for sig, detail, path in self.viol:
                if sig in seen:
                    continue
                seen.add(sig)
                shown = "".join(ch if 32 <= ord(ch) < 127 else "?" for ch in str(detail)[:400])   # one printable line per violation
                print("VIOLATION property=%s replay=%s  [%s] %s" % (self.prop, path, sig, shown))
            return 1
        print("OK property=%s tier=%s seed=%d states=%d impl_cases=%d wall=%.1fs" % (
            self.prop, self.tier, self.seed, cov["states"], cov["traces_validated_against_impl"], wall))
        return 0


def read_nd(path, quoted=True):
    out = []
    with open(path) as f:
        for line in f:
            line = line.strip()
            if line:
                out.append(unq(line) if quoted else json.loads(line))
    return out
