"""C10 Hostile input is contained to its own connection, both servers (DESIGN.md section 5, C10)."""
import json, os, tempfile
import vlib
from checks import live_common as lc
from checks import attach_common as ac

LEVEL = "model_checking"


def jt808_side(ctx, mode):
    tr = os.path.join(ctx.scratch, "c10_%s.ndjson" % mode)
    rc, err, events = lc.run_live(ctx, ["live-c10", mode, tr], timeout=1800)
    last = [e["name"] for e in events if e["ev"] == "hostile"]
    lc.crash_check(ctx, rc, err, "live-c10 handlers=%s after hostile client '%s'" % (mode, (last or ["?"])[-1]),
                   {"kind": "live-c10", "mode": mode, "last_hostile": (last or ["?"])[-1]})
    nh = 0
    for e in events:
        if e["ev"] == "hostile":
            nh += 1
        if e["ev"] == "canary" and not e["ok"]:
            ctx.violation("canary-not-served handlers=%s after=%s" % (mode, e["after"]),
                          "the established session's heartbeat / command round trip, or a new connection, failed after hostile client '%s'" % e["after"],
                          {"kind": "live-c10", "mode": mode, "after": e["after"]})
        if e["ev"] == "leak" and (e["fds"] > 30 or e["goroutines"] > 60):
            ctx.violation("resources-of-ended-connections-not-released handlers=%s" % mode,
                          "after %s: %d more descriptors and %d more goroutines than before" % (e["after"], e["fds"], e["goroutines"]), {"kind": "live-c10", "mode": mode, "event": e})
        if e["ev"] == "cmd_stranded":
            ctx.violation("caller-stranded handlers=%s" % mode, "a SendActiveMessage to the non-reading terminal did not return", {"kind": "live-c10", "mode": mode})
    if rc == 0 and not any(e["ev"] == "canary" and e["after"] == "end" for e in events) and all(e["ok"] for e in events if e["ev"] == "canary"):
        raise vlib.ToolFailure("live-c10 %s ended without its final canary" % mode)
    ctx.note_impl("hostile-clients-against-live-jt808-server handlers=%s" % mode, nh)
    # the canary's own conversation must be exactly what the specification prescribes, whatever the neighbours do
    conns = lc.split_conns(events)
    canary = {c: es for c, es in conns.items() if any(e["ev"] == "canary" for e in es)}
    if mode == "default":
        lc.trace_conn(ctx, canary, "c10_canary_" + mode)
    return events


def check(ctx):
    thorough = ctx.tier == "thorough"
    ctx.build()
    # (M) the connection protocol cannot panic and per-connection state is only touched by its own goroutines (MC_Conn NoPanic)
    ctx.tlc("MC_Conn", constants={"Callers": "{1, 2}", "MaxMsgs": 1, "CapMsg": 2, "CapActive": 1, "CapComplete": 1, "CapOp": 2,
                                  "Protocol": '"fixed2"', "TermResponds": "TRUE", "SerialMod": 4, "Identity": "TRUE"}, workers=14, heap="10g", timeout=3000)
    ev = jt808_side(ctx, "default")
    jt808_side(ctx, "parseall")
    # the frame extractor under sessions no friendly terminal produces: transfers abandoned for more than the 60 s they are kept,
    # then continued; duplicates; impossible package numbers (logical clock; validated step by step by Trace_Extract)
    from checks import extract_common as xc
    xc.trace_extract(ctx, 300 if thorough else 40)
    xc.oversized_transfers(ctx)
    ctx.sample({"from": "hostile-catalogue", "names": [e["name"] for e in ev if e["ev"] == "hostile"][:20]})
    # attachment server: hostile sessions through the real connection loop (in-memory conn, exact close points), judged by Trace_Attach
    ac.trace_attach(ctx, 900 if thorough else 150, hostile=True, sig_prefix="attachment ")
    # ... every 1- and 2-cut segmentation of an upload session (a header field cut anywhere must neither crash nor derail the session)
    ac.mc_attach_seg(ctx, [("JS", 1)] if not thorough else [("JS", 1), ("HLJ", 0), ("SC", 0)])
    # ... and over real TCP with the default file handler
    work = tempfile.mkdtemp(prefix="verif_c10_attach_")
    out = os.path.join(ctx.scratch, "c10_attach_tcp.ndjson")
    r = ctx.vh(["live-attach", work, out], timeout=600)
    import shutil
    shutil.rmtree(work, ignore_errors=True)
    events = vlib.read_nd(out, quoted=False) if os.path.exists(out) else []
    last = [e["after"] for e in events if e.get("ev") == "canary"]
    lc.crash_check(ctx, r.returncode, r.stderr, "live-attach after hostile client following '%s'" % (last or ["?"])[-1], {"kind": "live-attach"})
    for e in events:
        if e.get("ev") == "canary" and not e["ok"]:
            ctx.violation("attachment canary-upload-failed after=%s" % e["after"], "a well-behaved upload did not complete / was not stored after hostile client '%s'" % e["after"], {"kind": "live-attach"})
    ctx.note_impl("hostile-lifecycles-against-live-attachment-server", len(events))
    ctx.cov["rule"] = ("JT808 server in a child process, default handlers and parse-everything handlers: catalogue of hostile clients (connect-and-close, "
                       "resets, half frames, garbage, bad checksum/escape/length, package numbers 0 / beyond total / total 0 and 65535, unknown ids, "
                       "0x0102 with a 255-byte code, terminal-sent 0x8003, maximal bodies, per supported id: empty/one-byte/FF bodies and 12 mutations "
                       "of every valid seed body in both versions, impossible additional-information items, a non-reading terminal flooded with commands), "
                       "each followed by a canary probe (heartbeat reply, command round trip, fresh connection). Attachment server: hostile sessions "
                       "validated by Trace_Attach and 13 hostile TCP lifecycles each followed by a canary upload that must be stored byte-exactly.")
    ctx.assumptions += ["resource exhaustion (unbounded buffering of garbage without delimiters, chunk headers announcing 4 GB) is outside the property as stated",
                        "hostile connections themselves are not trace-validated; the canary's conversation is (Trace_Conn)"]


def replay(ctx, path):
    raise vlib.ToolFailure("live scenarios are re-run, not replayed: ./check C10")
