---------------------------- MODULE MC_FrameC01 ----------------------------
(* C01, exhaustive part: every source-header variant x reply id x platform  *)
(* serial x every body up to MaxLen over an alphabet containing all bytes   *)
(* the codec treats specially, plus one forcing byte that makes the         *)
(* checksum itself 7E / 7D / 01 / 02.  Each state is one case; the          *)
(* invariant checks the property on the specification and emits the case    *)
(* with the specification's expected bytes for replay on the real code.     *)
EXTENDS Frame, TLC, Json, CSV, IOUtils

CONSTANTS MaxLenFull,    \* body length bound for the "full" header variants
          MaxLenThin     \* body length bound for all other variants
Alphabet == {126, 125, 1, 2, 0, 65}

Phones6  == << <<0,0,0,0,0,0>>, <<1,56,0,0,0,1>>, <<126,125,1,2,153,126>> >>
Phones10 == << <<0,0,0,0,0,0,0,0,0,0>>, <<0,0,0,0,1,56,0,0,0,1>>, <<125,126,2,1,125,125,126,126,0,125>> >>
Ids      == <<32769, 126, 32126, 33027>>      \* 0x8001, 0x007E, 0x7D7E, 0x8103
Psers    == <<0, 32381, 65535, 125>>          \* 0, 0x7E7D, 0xFFFF, 0x007D

Variants == [ver : {0, 1}, frag : {0, 1}, enc : {0, 1}, ph : 1..3, id : 1..4, ps : 1..4]
IsFull(v) == (v.ph = 3 /\ v.id = v.ps) \/ (v.ph = 2 /\ v.id = 1 /\ v.ps = 1 /\ v.enc = 0)

VARIABLES v, body
vars == <<v, body>>

SrcFields(w) == [id |-> 2, rsv15 |-> 0, ver |-> w.ver, frag |-> w.frag, enc3 |-> w.enc, verbyte |-> 1,
                 phone |-> IF w.ver = 1 THEN Phones10[w.ph] ELSE Phones6[w.ph],
                 serial |-> 7, total |-> 3, no |-> 2, body |-> IF w.frag = 1 THEN <<9, 126>> ELSE <<>>]
SrcFrame(w) == TerminalFrame(SrcFields(w))

Init == v \in Variants /\ body = <<>>
Next == /\ Len(body) < (IF IsFull(v) THEN MaxLenFull ELSE MaxLenThin)
        /\ \E a \in Alphabet : body' = Append(body, a)
        /\ UNCHANGED v

\* the bodies examined in this state: the body itself and four forced-checksum extensions
Forced(b) == LET src == Decode(SrcFrame(v))
                 hb  == HeaderBytes([id |-> Ids[v.id], rsv15 |-> 0, ver |-> v.ver, frag |-> 0, enc3 |-> v.enc,
                                     verbyte |-> 1, phone |-> src.phone, serial |-> Psers[v.ps],
                                     total |-> 0, no |-> 0], Len(b) + 1) \o b
             IN {Append(b, XorAll(hb) ^^ t) : t \in {126, 125, 1, 2}}
Bodies == {body} \cup Forced(body)

Case(b) == LET sf == SrcFrame(v) IN
           [src |-> sf, id |-> Ids[v.id], pser |-> Psers[v.ps], body |-> b,
            out |-> EncodeReply(Decode(sf), Ids[v.id], Psers[v.ps], b)]

PropertyHolds == \A b \in Bodies : RoundTrip(Decode(SrcFrame(v)), Ids[v.id], Psers[v.ps], b)
SrcOk == Decode(SrcFrame(v)).ok /\ Sound(SrcFrame(v))
Emit == \A b \in Bodies : CSVWrite("%1$s", <<ToJson(Case(b))>>, IOEnv.VERIF_OUT)
=============================================================================
