package main

import (
	"fmt"
	"os"
)

var cmds = map[string]func(args []string){}

func main() {
	if len(os.Args) < 2 {
		fmt.Fprintln(os.Stderr, "usage: vh <cmd> args...")
		os.Exit(2)
	}
	f, ok := cmds[os.Args[1]]
	if !ok {
		fmt.Fprintln(os.Stderr, "unknown command", os.Args[1])
		os.Exit(2)
	}
	f(os.Args[2:])
}
