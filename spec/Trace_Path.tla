------------------------------ MODULE Trace_Path ------------------------------
(* C19, implementation -> specification: for seeded random announced names   *)
(* (arbitrary bytes) the harness ran a complete real session with the        *)
(* default file handler in a sandbox and recorded which paths were created   *)
(* or modified (relative to the working directory, as segment lists).        *)
EXTENDS Path, Json, IOUtils
Trace == ndJsonDeserialize(IOEnv.VERIF_TRACE)
VARIABLE l
Init == l = 0
Next == l = 0 /\ l' \in 1..Len(Trace)
E == Trace[l]
LogFile == << <<102, 105, 108, 101, 46, 108, 111, 103>> >>        \* "file.log", the handler's own log
\* every created/modified file lies strictly inside <phone>/
AllConfined == l = 0 \/ \A i \in 1..Len(E.written) : E.written[i] = LogFile \/ Confined(E.phone, E.written[i])
\* a plain name is stored under exactly that name with the uploaded content
PlainStored == l = 0 \/ (Plain(E.name) /\ E.uploaded => E.stored)
=============================================================================
