package main

// Reflection bridge for spec/Layouts.tla (C07): the specification's field names are the Go field
// names; a case is (type, fields in wire order with kind and bytes, body).

import (
	"bytes"
	"encoding/binary"
	"fmt"
	"math/rand"
	"reflect"
	"strings"

	"github.com/cuteLittleDevil/go-jt808/protocol/jt808"
	"github.com/cuteLittleDevil/go-jt808/protocol/model"
	"github.com/cuteLittleDevil/go-jt808/protocol/utils"
	"github.com/cuteLittleDevil/go-jt808/shared/consts"
	"golang.org/x/text/encoding/simplifiedchinese"
)

type lField struct {
	N     string          `json:"n"`
	K     string          `json:"k"`
	Ln    string          `json:"ln,omitempty"`
	Cn    string          `json:"cn,omitempty"`
	Cw    int             `json:"cw,omitempty"`
	B     B               `json:"b"`
	Items jsonRawMessages `json:"items,omitempty"`
}

type jsonRawMessages []jsonRaw
type jsonRaw []byte

func (j *jsonRaw) UnmarshalJSON(b []byte) error { *j = append((*j)[:0], b...); return nil }
func (j jsonRaw) MarshalJSON() ([]byte, error)  { return j, nil }

type lParam struct {
	ID    int  `json:"id"`
	B     B    `json:"b"`
	Known bool `json:"known"` // in the specification's table: has a field of its own; otherwise kept verbatim
}

type lCase struct {
	Type   string   `json:"type"`
	Fields []lField `json:"fields"`
	Params []lParam `json:"params"`
	Body   B        `json:"body"`
}

// paramField finds the TerminalParamDetails field for a parameter id ("T0x029..." for id 0x29)
func paramField(details reflect.Value, id int) (reflect.Value, bool) {
	if id > 0xfff {
		return reflect.Value{}, false
	}
	prefix := fmt.Sprintf("T0x%03X", id) // field names carry exactly three hex digits
	t := details.Type()
	for i := 0; i < t.NumField(); i++ {
		n := t.Field(i).Name
		if len(n) > 6 && strings.EqualFold(n[:6], prefix) && details.Field(i).Kind() == reflect.Struct {
			return details.Field(i), true
		}
	}
	return reflect.Value{}, false
}

func setParamValue(v reflect.Value, b []byte) { // v = the Value field of a ParamContent[T]
	switch v.Kind() {
	case reflect.Uint8, reflect.Uint16, reflect.Uint32:
		v.SetUint(uintOf(b))
	case reflect.String:
		v.SetString(string(b))
	case reflect.Array:
		reflect.Copy(v, reflect.ValueOf(b))
	case reflect.Slice:
		v.SetBytes(append([]byte{}, b...))
	}
}

func paramValueBytes(v reflect.Value, n int) []byte {
	switch v.Kind() {
	case reflect.Uint8, reflect.Uint16, reflect.Uint32:
		return beBytes(v.Uint(), n)
	case reflect.String:
		return []byte(v.String())
	case reflect.Array:
		out := make([]byte, v.Len())
		reflect.Copy(reflect.ValueOf(out), v)
		return out
	case reflect.Slice:
		return v.Bytes()
	}
	return nil
}

// replayParams: 0x8103 with the specification's parameter set
func replayParams(c lCase, put func(sig, det string, c any)) {
	mk := func() *model.P0x8103 { return &model.P0x8103{} }
	p := mk()
	p.ParamTotal = byte(len(c.Params))
	det := reflect.ValueOf(&p.TerminalParamDetails).Elem()
	p.TerminalParamDetails.OtherContent = map[uint32]model.ParamContent[[]byte]{}
	for _, prm := range c.Params {
		if f, ok := paramField(det, prm.ID); ok && !prm.Known {
			// a field exists for an id the specification's (= Parse's) table does not list: the value that uses the field
			// must round-trip as well; probed on its own so that the rest of the set is still judged
			one := mk()
			one.ParamTotal = 1
			of := reflect.ValueOf(&one.TerminalParamDetails).Elem()
			tf, _ := paramField(of, prm.ID)
			tf.FieldByName("ID").SetUint(uint64(prm.ID))
			tf.FieldByName("Len").SetUint(uint64(widthOf(tf.FieldByName("Value").Kind())))
			tf.FieldByName("Value").SetUint(0x01020304)
			back := mk()
			m1 := jt808.NewJTMessage()
			m1.Body = exact(one.Encode())
			if err := back.Parse(m1); err != nil {
				put(fmt.Sprintf("typed-parameter-rejected %04x", prm.ID), err.Error(), c)
			} else if bf, _ := paramField(reflect.ValueOf(&back.TerminalParamDetails).Elem(), prm.ID); bf.FieldByName("Value").Uint() != 0x01020304 {
				put(fmt.Sprintf("typed-parameter-filed-as-unknown %04x", prm.ID),
					fmt.Sprintf("Encode writes the field of parameter %04x, Parse of those bytes leaves the field empty (the value lands in OtherContent)", prm.ID), c)
			}
			_ = f
		}
		if f, ok := paramField(det, prm.ID); ok && prm.Known {
			f.FieldByName("ID").SetUint(uint64(prm.ID))
			f.FieldByName("Len").SetUint(uint64(len(prm.B)))
			setParamValue(f.FieldByName("Value"), prm.B)
		} else {
			p.TerminalParamDetails.OtherContent[uint32(prm.ID)] = model.ParamContent[[]byte]{ID: uint32(prm.ID), Len: byte(len(prm.B)), Value: append([]byte{}, prm.B...)}
		}
	}
	cls := fmt.Sprintf("P0x8103 params=%d", len(c.Params))
	if len(c.Params) == 1 {
		cls = fmt.Sprintf("P0x8103 param=%04x", c.Params[0].ID)
	}
	var enc []byte
	if pn := protect(func() { enc = p.Encode() }); pn != "" {
		put("encode-panic "+cls, pn, c)
		return
	}
	if !bytes.Equal(enc, c.Body) {
		put("encode-differs "+cls, fmt.Sprintf("Encode gives %x, the layout %x", enc, []byte(c.Body)), c)
	}
	q := mk()
	m := jt808.NewJTMessage()
	m.Body = exact(c.Body)
	var err error
	if pn := protect(func() { err = q.Parse(m) }); pn != "" || err != nil {
		put("parse-rejects-encoding "+cls, fmt.Sprint(pn, err), c)
		return
	}
	qd := reflect.ValueOf(&q.TerminalParamDetails).Elem()
	for _, prm := range c.Params {
		var got []byte
		if f, ok := paramField(qd, prm.ID); ok && prm.Known {
			if int(f.FieldByName("ID").Uint()) == prm.ID {
				got = paramValueBytes(f.FieldByName("Value"), len(prm.B))
			}
		} else if oc, ok := q.TerminalParamDetails.OtherContent[uint32(prm.ID)]; ok {
			got = oc.Value
		}
		if !bytes.Equal(got, prm.B) || got == nil {
			put(fmt.Sprintf("parse-loses-parameter %04x", prm.ID), fmt.Sprintf("parameter %04x: got %x want %x", prm.ID, got, []byte(prm.B)), c)
			return
		}
	}
	if re := q.Encode(); !bytes.Equal(re, c.Body) {
		put("reencode-differs "+cls, fmt.Sprintf("%x vs %x", re, []byte(c.Body)), c)
	}
	// the same bytes through one long-lived receiver that has parsed every earlier parameter set (known and unknown ids, all of
	// them at once): nothing of an earlier set is left in the value
	if paramsReused == nil {
		paramsReused = mk()
	}
	rm := jt808.NewJTMessage()
	rm.Body = exact(c.Body)
	var rerr error
	var re []byte
	pn := protect(func() {
		if rerr = paramsReused.Parse(rm); rerr == nil {
			re = paramsReused.Encode()
		}
	})
	if pn != "" || rerr != nil || !bytes.Equal(re, c.Body) {
		put("reused-receiver-reencode-differs "+cls, fmt.Sprintf("%s %v: %x vs %x", pn, rerr, re, []byte(c.Body)), []lCase{paramsPrev, c})
		paramsReused = mk()
	} else if len(paramsReused.TerminalParamDetails.OtherContent) != countUnknown(c.Params) {
		put("reused-receiver-differs "+cls, fmt.Sprintf("%d unknown parameters kept, the body holds %d", len(paramsReused.TerminalParamDetails.OtherContent), countUnknown(c.Params)), []lCase{paramsPrev, c})
		paramsReused = mk()
	}
	paramsPrev = c
}

var paramsReused *model.P0x8103
var paramsPrev lCase

func countUnknown(ps []lParam) int {
	n := 0
	det := reflect.ValueOf(&model.TerminalParamDetails{}).Elem()
	for _, prm := range ps {
		if _, ok := paramField(det, prm.ID); !(ok && prm.Known) {
			n++
		}
	}
	return n
}

func bcdString(b []byte) string {
	if len(b) == 6 {
		return fmt.Sprintf("20%02x-%02x-%02x %02x:%02x:%02x", b[0], b[1], b[2], b[3], b[4], b[5])
	}
	return fmt.Sprintf("%x", b)
}

func uintOf(b []byte) uint64 {
	var v uint64
	for _, x := range b {
		v = v<<8 | uint64(x)
	}
	return v
}

func beBytes(v uint64, w int) []byte {
	out := make([]byte, w)
	for i := w - 1; i >= 0; i-- {
		out[i] = byte(v)
		v >>= 8
	}
	return out
}

func widthOf(k reflect.Kind) int {
	switch k {
	case reflect.Uint8:
		return 1
	case reflect.Uint16:
		return 2
	case reflect.Uint32:
		return 4
	case reflect.Uint64:
		return 8
	}
	return 0
}

// fieldAt resolves a (possibly dotted) field name
func fieldAt(obj reflect.Value, name string) reflect.Value {
	for _, part := range strings.Split(name, ".") {
		if !obj.IsValid() || obj.Kind() != reflect.Struct {
			return reflect.Value{}
		}
		obj = obj.FieldByName(part)
	}
	return obj
}

// setFields writes the specification's value into a Go struct
func setFields(obj reflect.Value, fields []lField) error {
	for _, f := range fields {
		fv := fieldAt(obj, f.N)
		if !fv.IsValid() {
			return fmt.Errorf("no field %s", f.N)
		}
		setCount := func(name string, n int) error {
			cv := obj.FieldByName(name)
			if !cv.IsValid() {
				return fmt.Errorf("no count field %s", name)
			}
			cv.SetUint(uint64(n))
			return nil
		}
		switch f.K {
		case "u":
			if widthOf(fv.Kind()) != len(f.B) {
				return fmt.Errorf("field %s: Go width %d, layout width %d", f.N, widthOf(fv.Kind()), len(f.B))
			}
			fv.SetUint(uintOf(f.B))
		case "raw", "rest":
			switch fv.Kind() {
			case reflect.String:
				fv.SetString(string(f.B))
			case reflect.Slice:
				fv.SetBytes(append([]byte{}, f.B...))
			case reflect.Array:
				reflect.Copy(fv, reflect.ValueOf([]byte(f.B)))
			}
		case "bcd":
			fv.SetString(bcdString(f.B))
		case "fstr":
			fv.SetString(string(f.B))
		case "items":
			sl := reflect.MakeSlice(fv.Type(), len(f.Items), len(f.Items))
			for i, raw := range f.Items {
				var sub []lField
				if err := jsonUnmarshal(raw, &sub); err != nil {
					return err
				}
				if err := setFields(sl.Index(i), sub); err != nil {
					return err
				}
			}
			fv.Set(sl)
		case "lstr":
			fv.SetString(string(f.B))
			if err := setCount(f.Ln, len(f.B)); err != nil {
				return err
			}
		case "ulist":
			sl := reflect.MakeSlice(fv.Type(), len(f.Items), len(f.Items))
			for i, raw := range f.Items {
				var b B
				if err := jsonUnmarshal(raw, &b); err != nil {
					return err
				}
				sl.Index(i).SetUint(uintOf(b))
			}
			fv.Set(sl)
			if err := setCount(f.Cn, len(f.Items)); err != nil {
				return err
			}
		case "list":
			sl := reflect.MakeSlice(fv.Type(), len(f.Items), len(f.Items))
			for i, raw := range f.Items {
				var sub []lField
				if err := jsonUnmarshal(raw, &sub); err != nil {
					return err
				}
				if err := setFields(sl.Index(i), sub); err != nil {
					return err
				}
			}
			fv.Set(sl)
			if err := setCount(f.Cn, len(f.Items)); err != nil {
				return err
			}
		}
	}
	return nil
}

// cmpFields compares a parsed Go struct with the specification's value; "" when equal
func cmpFields(obj reflect.Value, fields []lField, path string) string {
	for _, f := range fields {
		fv := fieldAt(obj, f.N)
		if !fv.IsValid() {
			return path + f.N + ": no such field"
		}
		cnt := func(name string, n int) string {
			if cv := obj.FieldByName(name); !cv.IsValid() || int(cv.Uint()) != n {
				return fmt.Sprintf("%s%s: count/length field is %v, want %d", path, name, cv, n)
			}
			return ""
		}
		switch f.K {
		case "u":
			if got := beBytes(fv.Uint(), len(f.B)); !bytes.Equal(got, f.B) || widthOf(fv.Kind()) != len(f.B) {
				return fmt.Sprintf("%s%s: got %x want %x", path, f.N, got, []byte(f.B))
			}
		case "raw", "rest":
			var got []byte
			switch fv.Kind() {
			case reflect.String:
				got = []byte(fv.String())
			case reflect.Slice:
				got = fv.Bytes()
			case reflect.Array:
				got = make([]byte, fv.Len())
				reflect.Copy(reflect.ValueOf(got), fv)
			}
			if !bytes.Equal(got, f.B) {
				return fmt.Sprintf("%s%s: got %x want %x", path, f.N, got, []byte(f.B))
			}
		case "bcd":
			if fv.String() != bcdString(f.B) {
				return fmt.Sprintf("%s%s: got %q want %q", path, f.N, fv.String(), bcdString(f.B))
			}
		case "fstr":
			if fv.String() != string(f.B) {
				return fmt.Sprintf("%s%s: got %q want %q", path, f.N, fv.String(), string(f.B))
			}
		case "items":
			if fv.Len() != len(f.Items) {
				return fmt.Sprintf("%s%s: %d items, want %d", path, f.N, fv.Len(), len(f.Items))
			}
			for i, raw := range f.Items {
				var sub []lField
				jsonUnmarshal(raw, &sub)
				if d := cmpFields(fv.Index(i), sub, fmt.Sprintf("%s%s[%d].", path, f.N, i)); d != "" {
					return d
				}
			}
		case "lstr":
			if fv.String() != string(f.B) {
				return fmt.Sprintf("%s%s: got %q want %q", path, f.N, fv.String(), string(f.B))
			}
			if d := cnt(f.Ln, len(f.B)); d != "" {
				return d
			}
		case "ulist":
			if fv.Len() != len(f.Items) {
				return fmt.Sprintf("%s%s: %d items, want %d", path, f.N, fv.Len(), len(f.Items))
			}
			for i, raw := range f.Items {
				var b B
				jsonUnmarshal(raw, &b)
				if fv.Index(i).Uint() != uintOf(b) {
					return fmt.Sprintf("%s%s[%d]: got %x want %x", path, f.N, i, fv.Index(i).Uint(), []byte(b))
				}
			}
			if d := cnt(f.Cn, len(f.Items)); d != "" {
				return d
			}
		case "list":
			if fv.Len() != len(f.Items) {
				return fmt.Sprintf("%s%s: %d items, want %d", path, f.N, fv.Len(), len(f.Items))
			}
			for i, raw := range f.Items {
				var sub []lField
				jsonUnmarshal(raw, &sub)
				if d := cmpFields(fv.Index(i), sub, fmt.Sprintf("%s%s[%d].", path, f.N, i)); d != "" {
					return d
				}
			}
			if d := cnt(f.Cn, len(f.Items)); d != "" {
				return d
			}
		}
	}
	return ""
}

// newModel: the receiver for a layout name; "_v<n>" selects the protocol version, "_d<n>" the active-safety dialect
func newModel(name string) (modelHandler, consts.ProtocolVersionType, bool) {
	base, ver, dia := name, consts.JT808Protocol2013, consts.ActiveSafetyJS
	if i := strings.LastIndex(name, "_"); i > 0 && len(name) == i+3 {
		base = name[:i]
		switch name[i+1] {
		case 'v':
			ver = consts.ProtocolVersionType(name[i+2] - '0')
		case 'd':
			dia = consts.ActiveSafetyType(name[i+2] - '0')
		}
	}
	var h modelHandler
	switch base {
	case "T0x0100":
		h = &model.T0x0100{Version: ver}
	case "T0x0102":
		h = &model.T0x0102{Version: ver}
	case "T0x0704":
		h = &model.T0x0704{}
	case "T0x1210":
		h = &model.T0x1210{P9208AlarmSign: model.P9208AlarmSign{ActiveSafetyType: dia}}
	case "P0x9208":
		h = &model.P0x9208{P9208AlarmSign: model.P9208AlarmSign{ActiveSafetyType: dia}}
	case "P0x8104":
		h = &model.P0x8104{}
	case "P0x9003":
		h = &model.P0x9003{}
	default:
		for _, t := range targets() {
			if t.name == base {
				h = t.mk(ver, dia).(*modelRecv).h
			}
		}
	}
	return h, ver, h != nil
}

func listLen(fields []lField) int {
	n := 0
	for _, f := range fields {
		if f.K == "ulist" || f.K == "list" || f.K == "items" {
			n = len(f.Items)
		}
	}
	return n
}

func init() {
	cmds["c07-replay"] = func(a []string) {
		out := newND(a[1])
		defer out.close()
		n := 0
		classes := map[string]int{}
		var samples []any
		seen := map[string]int{}
		put := func(sig, det string, c any) {
			seen[sig]++
			if seen[sig] <= 2 {
				out.put(mismatch{sig, det, c})
			}
		}
		reusedRecv := map[string]modelHandler{}
		reusedPrev := map[string]lCase{}
		err := readND(a[0], func(i int, raw []byte) error {
			var c lCase
			if err := jsonUnmarshal(raw, &c); err != nil {
				return err
			}
			n++
			classes[c.Type]++
			if len(samples) < 3 && listLen(c.Fields) >= 2 {
				samples = append(samples, c)
			}
			if c.Type == "P0x8103" {
				replayParams(c, put)
				return nil
			}
			cls := fmt.Sprintf("%s list-len=%d", c.Type, listLen(c.Fields))
			// 1. the specification's value, set on the real struct, must encode to the specification's bytes
			h, ver, ok := newModel(c.Type)
			if !ok {
				return fmt.Errorf("no model type %s", c.Type)
			}
			if err := setFields(reflect.ValueOf(h).Elem(), c.Fields); err != nil {
				put("layout-binding "+c.Type, err.Error(), c)
				return nil
			}
			var enc []byte
			if p := protect(func() { enc = h.(encoder).Encode() }); p != "" {
				put("encode-panic "+cls, p, c)
				return nil
			}
			if !bytes.Equal(enc, c.Body) {
				put("encode-differs "+cls, fmt.Sprintf("Encode gives %x, the layout %x", enc, []byte(c.Body)), c)
			}
			// 2. the specification's bytes must parse to the specification's value
			h2, _, _ := newModel(c.Type)
			if r, ok := h2.(*model.T0x0100); ok {
				r.Version = 0 // Parse has to find the version itself
			} else if r, ok := h2.(*model.T0x0102); ok {
				r.Version = 0
			}
			m := jt808.NewJTMessage()
			m.Header.ProtocolVersion = ver
			if ver == consts.JT808Protocol2011 {
				m.Header.ProtocolVersion = consts.JT808Protocol2013 // the frame decoder cannot tell 2011 from 2013
			}
			m.Body = exact(c.Body)
			var perr error
			if p := protect(func() { perr = h2.Parse(m) }); p != "" {
				put("parse-panic "+cls, p, c)
				return nil
			}
			if perr != nil {
				put("parse-rejects-encoding "+cls, fmt.Sprintf("%v on %x", perr, []byte(c.Body)), c)
				return nil
			}
			if d := cmpFields(reflect.ValueOf(h2).Elem(), c.Fields, ""); d != "" {
				put("parse-differs "+cls, d, c)
				return nil
			}
			if vf := reflect.ValueOf(h2).Elem().FieldByName("Version"); vf.IsValid() && strings.Contains(c.Type, "_v") && consts.ProtocolVersionType(vf.Uint()) != ver {
				put("parse-differs "+cls, fmt.Sprintf("Version: got %d want %d", vf.Uint(), ver), c)
				return nil
			}
			// 2b. the same bytes parsed by a receiver that has parsed the previous case of this type (handlers are long-lived objects
			// in the servers) give the same value
			if prev, ok := reusedRecv[c.Type]; ok {
				var rerr error
				pr := protect(func() { rerr = prev.Parse(m) })
				if pr != "" || rerr != nil {
					put("reused-receiver-rejects "+cls, fmt.Sprint(pr, rerr), c)
				} else if d := cmpFields(reflect.ValueOf(prev).Elem(), c.Fields, ""); d != "" {
					put("reused-receiver-differs "+cls, d, []lCase{reusedPrev[c.Type], c})
				} else if re2 := prev.(encoder).Encode(); !bytes.Equal(re2, c.Body) {
					put("reused-receiver-reencode-differs "+cls, fmt.Sprintf("%x vs %x", re2, []byte(c.Body)), []lCase{reusedPrev[c.Type], c})
				}
			} else {
				r0, _, _ := newModel(c.Type)
				if r1, ok := r0.(*model.T0x0100); ok {
					r1.Version = 0
				} else if r1, ok := r0.(*model.T0x0102); ok {
					r1.Version = 0
				}
				protect(func() { r0.Parse(m) })
				reusedRecv[c.Type] = r0
			}
			reusedPrev[c.Type] = c
			// 3. re-encoding the parsed value gives the identical bytes
			var re []byte
			if p := protect(func() { re = h2.(encoder).Encode() }); p != "" || !bytes.Equal(re, c.Body) {
				put("reencode-differs "+cls, fmt.Sprintf("%s %x vs %x", p, re, []byte(c.Body)), c)
			}
			return nil
		})
		if err != nil {
			die(err)
		}
		out.put(summary{Summary: true, Cases: n, Distinct: n, Classes: classes, Samples: samples})
	}

	// helpers: laws recorded for spec/Trace_Helpers.tla
	cmds["c07-helpers"] = func(a []string) {
		n := atoi(a[0])
		out := newND(a[1])
		defer out.close()
		r := newRand(707)
		for i := 0; i < n; i++ {
			// BCD time round trip on the formatted 6-byte form
			b := make([]byte, 6)
			for k := range b {
				b[k] = byte(r.Intn(10)<<4 | r.Intn(10))
			}
			s := utils.BCD2Time(b)
			out.put(map[string]any{"ev": "bcdtime", "bcd": B(b), "text": B(s), "back": B(utils.Time2BCD(s))})
			// BCD phone rendering
			p := randPhone(r, r.Intn(2))
			out.put(map[string]any{"ev": "bcd2dec", "bcd": B(p), "digits": digitsOf(utils.Bcd2Dec(p))})
			// fixed-width padding
			w := 1 + r.Intn(30)
			txt := randAscii(r, r.Intn(36))
			out.put(map[string]any{"ev": "fill", "text": B(txt), "w": w, "out": B(utils.String2FillingBytes(string(txt), w))})
			// GBK <-> UTF-8 on encodable text (ASCII and a fixed set of CJK characters)
			u := randCJK(r)
			g := utils.UTF82GBK([]byte(u))
			out.put(map[string]any{"ev": "gbk", "utf8": B(u), "gbk": B(g), "back": B(utils.GBK2UTF8(g)), "ref": B(gbkRef(u))})
		}
		// every GBK-encodable character of the basic plane (stride > 1: a sample that always contains the
		// single-byte and range-boundary characters), alone and next to ASCII / CJK neighbours
		stride, off := 1, 0
		if len(a) > 2 {
			stride, off = atoi(a[2]), atoi(a[3])%atoi(a[2])
		}
		special := map[rune]bool{0x20AC: true, 0xA4: true, 0xB7: true, 0x4E00: true, 0x9FA5: true, 0x3000: true, 0xFFE5: true, 0xE5E5: true, 0xF92C: true}
		var heldG, heldU, heldGCopy, heldUCopy []byte
		for c := rune(0x80); c <= 0xFFFF; c++ {
			if c >= 0xD800 && c <= 0xDFFF || (int(c)%stride != off && !special[c]) {
				continue
			}
			if gbkRef(string(c)) == nil {
				continue // not in the domain: no GBK code
			}
			for _, u := range []string{string(c), "5" + string(c), string(c) + "A1", string(c) + "京" + string(c)} {
				g := utils.UTF82GBK([]byte(u))
				back := utils.GBK2UTF8(g)
				// results handed out earlier keep their bytes while later texts are converted
				held := heldG == nil || (bytes.Equal(heldG, heldGCopy) && bytes.Equal(heldU, heldUCopy))
				out.put(map[string]any{"ev": "gbk", "utf8": B(u), "gbk": B(g), "back": B(back), "ref": B(gbkRef(u)), "heldsame": held})
				heldG, heldU, heldGCopy, heldUCopy = g, back, append([]byte{}, g...), append([]byte{}, back...)
			}
		}
	}
}

// gbkRef: the GBK code of a text by the reference tables (golang.org/x/text, strict: nil when a character has none)
func gbkRef(u string) []byte {
	b, err := simplifiedchinese.GBK.NewEncoder().Bytes([]byte(u))
	if err != nil {
		return nil
	}
	if b == nil {
		b = []byte{}
	}
	return b
}

func randAscii(r *rand.Rand, n int) []byte {
	b := make([]byte, n)
	for i := range b {
		b[i] = byte(0x21 + r.Intn(0x5e))
	}
	return b
}

func randCJK(r *rand.Rand) string {
	pool := []string{"京", "沪", "粤", "川", "测", "试", "A", "B", "1", "2", "3", "警", "学", "港", "澳", "-", "Z"}
	var sb strings.Builder
	for i := 0; i < 1+r.Intn(8); i++ {
		sb.WriteString(pool[r.Intn(len(pool))])
	}
	return sb.String()
}

var _ = binary.BigEndian
