#!/usr/bin/env python3
"""Regenerates /verif/MANIFEST.json from the table below (single source of truth)."""
import json, os, subprocess
V = os.path.dirname(os.path.dirname(os.path.abspath(__file__)))
ids = [json.loads(l)["id"] for l in open(os.path.join(V, "properties.jsonl"))]

TRUST = ("Trusted: TLC + CommunityModules overrides, the Go toolchain, the harness adapters' projection functions "
         "(harness/*.go). Bounded instances; constants in evidence.coverage.tlc_runs.")

CHECKS = {
 "C01": dict(cat="model_checking", ref="5/C01",
   tech="TLA+ spec Frame.tla; TLC exhaustive bounded enumeration (MC_FrameC01) with every state replayed on Header.Encode/Decode; trace validation of recorded implementation events (Trace_FrameC01)",
   text="TLC checks RoundTrip/Transparent on the Frame specification for every source-header variant x reply id x serial x body up to the bound over an alphabet holding every special byte (plus forced 7E/7D/01/02 checksums) and emits each state with the expected bytes; the real Header.Encode must produce exactly those bytes and JTMessage.Decode must invert them. In the other direction seeded random bodies 0..1023 bytes over all 256 values, run through the real code, are validated event by event against the same operators."),
 "C02": dict(cat="model_checking", ref="5/C02",
   tech="TLA+ spec Frame.tla (operational Decode vs declarative canonical-form WellFormed); TLC exhaustive enumeration of short strings, wire-level escape strings and all single mutations of seed frames (MC_FrameC02), each replayed on JTMessage.Decode; trace validation of random frames/corruptions (Trace_FrameC02)",
   text="TLC proves Decode(f).ok <=> WellFormed(f) on the specification for every string of three exhaustive families (all short strings without interior delimiter; valid header + every wire-level escape string with length/checksum exact and off by one, checksum escaped and raw; every single-bit flip, substitution, truncation, deletion, insertion of 14 seed frames of both versions with and without sub-package fields) and emits each with the verdict and the positional field values; the real decoder must agree on accept/reject and on every field. Random valid frames over all byte values (bodies to 1023, reserved bits, arbitrary version bytes and package numbers) and their corruptions, decoded by the real code, are validated by TLC against WellFormed and the field reading."),
 "C17": dict(cat="model_checking", ref="5/C17",
   tech="TLA+ spec Rtp.tla (DecodeOne/Loop); TLC exhaustive enumeration of packet streams cut at every length plus marker-like junk (MC_Rtp), each replayed on jt1078.Packet.Decode; trace validation of random streams (Trace_Rtp)",
   text="TLC checks LoopExact on the Rtp specification for every stream of up to MaxPkts packets (every data type 0..15, marks, M bit, payload lengths) at every cut length, and JunkClassified for marker-alphabet prefixes padded around the 16- and 30-byte thresholds; every (stream, cut) is emitted with the expected sequence of packets (all header fields, payload) and final class and replayed on the real decoder with a fresh Packet per step. Seeded random streams with payloads 0..950 and beyond, random cuts and random strings are decoded by the real code and validated by TLC."),
}

NA_REASON = "check not built yet (work in progress; see DESIGN.md section 10)"

def main():
    hooks = []
    try:
        out = subprocess.run(["git", "-C", "/repo", "log", "--format=%h %s"], capture_output=True, text=True).stdout
        hooks = [l.split()[0] for l in out.splitlines() if l.split(" ", 1)[1].startswith("verif:")]
    except Exception:
        pass
    m = {"version": 1,
         "setup_cmd": "cd /verif/harness && GOFLAGS=-mod=mod GOPROXY=off GOSUMDB=off GOTOOLCHAIN=local go build -tags verif -o /dev/null . && python3 -c 'import json;json.load(open(\"/verif/known_findings.json\"))'",
         "hooks": {"guard": "verif", "enable": "go build -tags verif (the harness module /verif/harness has replace directives to /repo/{protocol,service,attachment,terminal,shared}, so every check compiles the working tree)",
                   "baseline_off_cmd": "for m in . attachment protocol service shared terminal; do (cd /repo/$m && go test -mod=mod -vet=off -count=1 ./...) || exit 1; done",
                   "source_commits": hooks, "add_only": True},
         "engines": [{"name": "check", "path": "/verif/check", "serves_properties": sorted(CHECKS),
                      "kind_free_text": "python3 orchestrator: TLC (spec/*.tla) <-> Go harness (harness/, built from /repo with -tags verif): exhaustive model checking, replay of TLC-generated cases/behaviours on the real code, TLC trace validation of recorded executions"}],
         "checks": [], "not_applicable": [],
         "notes": "Model-based verification with explicit TLA+ specifications (spec/). See DESIGN.md. known_findings.json lists recorded and fixed defects."}
    for i in ids:
        if i in CHECKS:
            c = CHECKS[i]
            m["checks"].append({"property_id": i, "quick_cmd": "./check %s --tier quick" % i,
                                "thorough_cmd": "./check %s --tier thorough" % i,
                                "evidence_file": "/verif/evidence/%s.json" % i,
                                "replay_cmd_template": "./check %s --replay {path}" % i, "engine": "check",
                                "level_claimed": {"category": c["cat"], "text": c["text"], "design_ref": "DESIGN.md section " + c["ref"]},
                                "level_note": c.get("note", TRUST), "technique": c["tech"]})
        else:
            m["not_applicable"].append({"property_id": i, "reason": NA_REASON})
    json.dump(m, open(os.path.join(V, "MANIFEST.json"), "w"), indent=1)
    print("checks:", len(m["checks"]), "not_applicable:", len(m["not_applicable"]), "hooks:", hooks)

main()
