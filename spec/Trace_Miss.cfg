INIT Init
NEXT Next
INVARIANTS ReportExact ReportIsSpec
CHECK_DEADLOCK FALSE
