------------------------------ MODULE MC_Mutate ------------------------------
(* C03: the structure-aware enumerator.  Seeds are valid bodies of every      *)
(* decoder target (produced by the repository's own encoders and captures).   *)
(* For every seed TLC enumerates EVERY single mutation of the families below  *)
(* - the inputs on which length guards, count-driven loops and per-item       *)
(* length tables are decided:                                                 *)
(*   cut k      the first k bytes (every truncation, incl. the empty body)    *)
(*   set i b    byte i replaced by b in {00, 01, 7F, 80, AA, FF}                  *)
(*   set2 i     bytes i, i+1 replaced by FF FF, AA AA and 00 00 (16-bit counts)   *)
(*   ins i b    one byte inserted before position i                           *)
(*   del i      byte i removed                                                *)
(*   ext k      1..3 bytes appended                                           *)
(*   zero i n   bytes i..i+n-1 zeroed, n = 24 (NUL padding inside       *)
(*              counted / fixed-width text), and the tail from i zeroed       *)
(* A decoder outcome is a function of the bytes alone: Outcome \in {Err} \cup *)
(* Val; the four ways an implementation can fail to be that function (panic,  *)
(* no termination, dependence on memory beyond the slice, dependence on the   *)
(* receiver's history) are observed by the replayer.                          *)
EXTENDS Integers, Sequences, FiniteSets, TLC, Json, CSV, IOUtils

Seeds == ndJsonDeserialize(IOEnv.VERIF_SEEDS)
Subst == {0, 1, 127, 128, 170, 255}      \* 170 = AA: letters where BCD digits are expected

VARIABLES i, body, kind
Init == i \in 1..Len(Seeds) /\ body = Seeds[i].body /\ kind = "seed"
Sub(s, a, b) == IF a > b THEN <<>> ELSE SubSeq(s, a, b)
Put(s, k, b) == [s EXCEPT ![k] = b]
Mutants(s) ==
    {[k |-> "cut", b |-> Sub(s, 1, n)] : n \in 0..(Len(s) - 1)}
    \cup {[k |-> "set", b |-> Put(s, p, v)] : p \in 1..Len(s), v \in Subst}
    \cup {[k |-> "set2", b |-> Put(Put(s, p, v), p + 1, v)] : p \in 1..(Len(s) - 1), v \in {0, 170, 255}}
    \cup {[k |-> "ins", b |-> Sub(s, 1, p - 1) \o <<v>> \o Sub(s, p, Len(s))] : p \in 1..(Len(s) + 1), v \in {0, 255}}
    \cup {[k |-> "del", b |-> Sub(s, 1, p - 1) \o Sub(s, p + 1, Len(s))] : p \in 1..Len(s)}
    \cup {[k |-> "ext", b |-> s \o [j \in 1..n |-> 255]] : n \in 1..3}
    \cup UNION {{[k |-> "zero", b |-> [j \in 1..Len(s) |-> IF j >= p /\ j < p + n THEN 0 ELSE s[j]]] :
                     p \in {q \in 1..Len(s) : n = 24 \/ q % 4 = 1}} : n \in {24, Len(s)}}
Next == kind = "seed" /\ \E m \in Mutants(body) : body' = m.b /\ kind' = m.k /\ UNCHANGED i

Emit == CSVWrite("%1$s", <<ToJson([t |-> Seeds[i].t, ver |-> Seeds[i].ver, dialect |-> Seeds[i].dialect,
                                   body |-> body, prefix |-> <<>>, kind |-> kind])>>, IOEnv.VERIF_OUT)
=============================================================================
