package main

// C10, attachment side over real TCP: hostile connection lifecycles against attachment.New().Run()
// with the default file handler, each followed by a canary upload that must complete and be stored.

import (
	"bytes"
	"fmt"
	"net"
	"os"
	"path/filepath"
	"time"

	"github.com/cuteLittleDevil/go-jt808/attachment"
)

func init() {
	// live-attach <workdir> <out>
	cmds["live-attach"] = func(a []string) {
		if err := os.Chdir(a[0]); err != nil {
			die(err)
		}
		so := os.Stdout
		os.Stdout, _ = os.Open(os.DevNull) // the default handler prints every event
		addr := freePort()
		g := attachment.New(attachment.WithHostPorts(addr))
		go g.Run()
		for i := 0; i < 200; i++ {
			if c, err := net.DialTimeout("tcp", addr, 50*time.Millisecond); err == nil {
				c.Close()
				break
			}
			time.Sleep(10 * time.Millisecond)
		}
		out := newND(a[1])
		defer out.close()
		r := newRand(1020)
		phone := []byte{0x01, 0x32, 0x00, 0x00, 0x00, 0x09}
		nser := 0
		ctl := func(id int, body []byte) []byte {
			nser++
			return buildFrame(hdrSpec{id: id, serial: nser, phone: phone, body: body})
		}
		canary := func(after string, k int) {
			name := []byte(fmt.Sprintf("canary_%d.bin", k))
			content := randBytes(r, 200)
			c, err := net.Dial("tcp", addr)
			ok := err == nil
			if ok {
				c.SetDeadline(time.Now().Add(5 * time.Second))
				c.Write(ctl(0x1210, body1210("JS", r, []aFile{{name, content}})))
				c.Write(ctl(0x1211, body1211(name, 0, len(content))))
				c.Write(chunkBytes("JS", name, 100, content[100:]))
				c.Write(chunkBytes("JS", name, 0, content[:100]))
				c.Write(ctl(0x1212, body1211(name, 0, len(content))))
				// three replies: 0x8001, 0x8001, 0x9212 (complete)
				buf := make([]byte, 4096)
				var acc []byte
				for bytes.Count(acc, []byte{0x7e}) < 6 {
					n, err := c.Read(buf)
					if err != nil {
						ok = false
						break
					}
					acc = append(acc, buf[:n]...)
				}
				c.Close()
				time.Sleep(30 * time.Millisecond)
				got, err := os.ReadFile(filepath.Join("13200000009", string(name)))
				if err != nil || !bytes.Equal(got, content) {
					ok = false
				}
			}
			out.put(map[string]any{"ev": "canary", "after": after, "ok": ok})
		}
		canary("start", 0)
		hostile := []struct {
			name  string
			sends [][]byte
			reset bool
		}{
			{"connect-and-close", nil, false},
			{"connect-and-reset", nil, true},
			{"half-control-frame", [][]byte{ctl(0x1210, body1210("JS", r, []aFile{{[]byte("a"), []byte{1}}}))[:20]}, false},
			{"garbage", [][]byte{randBytes(r, 500)}, false},
			{"marker-then-close", [][]byte{{0x30, 0x31, 0x63, 0x64}}, true},
			{"chunk-header-announcing-4GB", [][]byte{ctl(0x1210, body1210("JS", r, []aFile{{[]byte("big"), []byte{1}}})), chunkBytes("JS", []byte("big"), 0, nil)[:54], {0, 0, 0, 0, 0xff, 0xff, 0xff, 0xff}, randBytes(r, 100)}, true},
			{"chunk-for-unknown-file", [][]byte{ctl(0x1210, body1210("JS", r, []aFile{{[]byte("a"), []byte{1}}})), chunkBytes("JS", []byte("zzz"), 0, []byte{1, 2})}, false},
			{"1212-before-any-chunk", [][]byte{ctl(0x1210, body1210("JS", r, []aFile{{[]byte("a"), []byte{1, 2, 3}}})), ctl(0x1212, body1211([]byte("a"), 0, 3))}, false},
			{"1212-for-unknown-file", [][]byte{ctl(0x1210, body1210("JS", r, []aFile{{[]byte("a"), []byte{1, 2, 3}}})), ctl(0x1212, body1211([]byte("nobody"), 0, 3))}, false},
			{"bad-1210-count", [][]byte{func() []byte {
				b := body1210("JS", r, []aFile{{[]byte("a"), []byte{1}}})
				b[7+16+33] = 9
				return ctl(0x1210, b)
			}()}, false},
			{"unknown-command", [][]byte{ctl(0x0002, nil)}, false},
			{"1211-as-first-frame", [][]byte{ctl(0x1211, body1211([]byte("a"), 0, 3))}, false},
			{"1212-as-first-frame", [][]byte{ctl(0x1212, body1211([]byte("a"), 0, 3))}, false},
			{"reset-mid-file", [][]byte{ctl(0x1210, body1210("JS", r, []aFile{{[]byte("m"), randBytes(r, 50)}})), chunkBytes("JS", []byte("m"), 0, randBytes(r, 50))[:80]}, true},
			{"name-with-dotdot", [][]byte{ctl(0x1210, body1210("JS", r, []aFile{{[]byte("../../escape"), []byte{1}}})), ctl(0x1211, body1211([]byte("../../escape"), 0, 1)), chunkBytes("JS", []byte("../../escape"), 0, []byte{7}), ctl(0x1212, body1211([]byte("../../escape"), 0, 1))}, false},
		}
		for i, h := range hostile {
			c, err := net.Dial("tcp", addr)
			if err == nil {
				for _, s := range h.sends {
					c.Write(s)
					time.Sleep(time.Millisecond)
				}
				time.Sleep(5 * time.Millisecond)
				if h.reset {
					c.(*net.TCPConn).SetLinger(0)
				}
				c.Close()
			}
			time.Sleep(20 * time.Millisecond)
			canary(h.name, i+1)
		}
		os.Stdout = so
	}
}
