#!/usr/bin/env python3
"""tools/seed.py <worktree> <mutant-dir> <Cxx> [more checks...]
Confirms a seeded change (compiles, existing tests pass, demo fails with / passes without) in the scratch
worktree, then applies it to /repo, runs the named checks (quick), reverts, and stores everything under
/verif/seeded/<Cxx>_<name>/ with the outcome in meta.json."""
import sys, os, re, json, subprocess, shutil, glob
ENV = dict(os.environ, GOFLAGS="-mod=mod", GOPROXY="off", GOSUMDB="off", GOTOOLCHAIN="local")
MODS = ["protocol", "service", "attachment", "terminal"]

def sh(cmd, cwd, timeout=1200):
    r = subprocess.run(cmd, shell=True, cwd=cwd, env=ENV, capture_output=True, text=True, timeout=timeout)
    return r.returncode, (r.stdout + r.stderr)

def main():
    wt, mdir, prop = sys.argv[1], sys.argv[2], sys.argv[3]
    checks = sys.argv[3:]
    name = os.path.basename(mdir.rstrip("/"))
    patch = os.path.join(mdir, "patch.diff")
    meta = json.load(open(os.path.join(mdir, "meta.json")))
    demos = [f for f in glob.glob(os.path.join(mdir, "*")) if not f.endswith(("patch.diff", "meta.json")) and os.path.isfile(f)]
    res = {"confirmed": {}, "checks": {}}
    sh("git checkout -- . && git clean -fdq -e out", wt)
    rc, out = sh("git apply --check %s" % patch, wt)
    if rc != 0:
        print("patch does not apply in worktree:", out); res["confirmed"]["applies"] = False
    sh("git apply %s" % patch, wt)
    ok = True
    for m in MODS:
        rc, out = sh("go build ./... && go test -vet=off -count=1 ./...", os.path.join(wt, m))
        if rc != 0:
            ok = False; print("existing tests FAIL in", m, out[-1500:])
    res["confirmed"]["existing_tests_pass_with_patch"] = ok
    # demo
    demo_ok = None
    for d in demos:
        first = open(d, errors="replace").read(600)
        first = open(d, errors="replace").read(2500)
        m = re.search(r"[Pp]lace (?:this file )?(?:in|at|under):?\s+`?(\S+?)`?/?[\s(,]", first)
        cmds = [re.sub(r"^\s*(//|#)\s*", "", ln).strip().strip("`") for ln in first.splitlines()
                if re.search(r"go (test|run)", ln) and re.match(r"\s*(//|#|\*)", ln)]
        cmds = [re.sub(r"^.*?run:?\s*", "", c) if "run:" in c or "run " in c.split("go ")[0] else c for c in cmds]
        if not (m and cmds):
            print("cannot parse demo header of", d, "::", first[:300]); continue
        rel = m.group(1).strip("`")
        rel = rel.replace(wt + "/", "")
        if rel.endswith(".go"):
            ddir, base = os.path.join(wt, os.path.dirname(rel)), os.path.basename(rel)
        else:
            ddir, base = os.path.join(wt, rel), "zz_seed_demo_" + os.path.basename(d)
        dst = os.path.join(ddir, base)
        class R:  # keep the code below unchanged
            def group(self, i): return cmds[0]
        r = R()
        if not dst.endswith("_test.go") and d.endswith("_test.go"):
            dst = dst
        os.makedirs(ddir, exist_ok=True)
        shutil.copy(d, dst)
        cmd = r.group(1).strip()
        rc1, out1 = sh(cmd, wt, timeout=600)
        sh("git apply -R %s" % patch, wt)
        rc2, out2 = sh(cmd, wt, timeout=600)
        os.remove(dst)
        demo_ok = (rc1 != 0 and rc2 == 0)
        res["confirmed"]["demo"] = {"cmd": cmd, "fails_with_patch": rc1 != 0, "passes_without": rc2 == 0}
        if not demo_ok:
            print("DEMO not confirmed: with=%d without=%d\n%s\n---\n%s" % (rc1, rc2, out1[-800:], out2[-800:]))
        break
    sh("git checkout -- . && git clean -fdq -e out", wt)
    # run checks on /repo
    rc, out = sh("git status --porcelain", "/repo")
    if out.strip():
        print("/repo not clean, abort"); sys.exit(2)
    rpatch = os.path.join(mdir, "patch_rebased.diff")   # same change rebased onto later fix: commits of /repo
    if not os.path.exists(rpatch):
        rpatch = patch
    rc, out = sh("git apply %s" % rpatch, "/repo")
    if rc != 0:
        print("patch does not apply to /repo:", out); res["checks"]["applies_to_repo"] = False
    else:
        try:
            for c in checks:
                rc, out = sh("./check %s --tier quick" % c, "/verif", timeout=3000)
                viol = [l[:300] for l in out.splitlines() if l.startswith("VIOLATION")]
                res["checks"][c] = {"exit": rc, "violations": viol[:5]}
                print(c, "exit", rc, *viol[:3], sep="\n   ")
        finally:
            sh("git checkout -- . && git clean -fdq", "/repo")
    dst = os.path.join("/verif/seeded", "%s_%s" % (prop, name))
    os.makedirs(dst, exist_ok=True)
    shutil.copy(patch, dst)
    if rpatch != patch:
        shutil.copy(rpatch, dst)
    for d in demos:
        shutil.copy(d, dst)
    meta["verification"] = res
    meta["detected_by"] = [c for c, v in res["checks"].items() if isinstance(v, dict) and v.get("exit") == 1]
    json.dump(meta, open(os.path.join(dst, "meta.json"), "w"), indent=1, ensure_ascii=False)
    print("==>", name, "confirmed:", res["confirmed"], "detected_by:", meta["detected_by"])

main()
