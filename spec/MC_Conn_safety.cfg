SPECIFICATION Spec
CONSTANTS
  Callers = {1, 2}
  MaxMsgs = 1
  CapMsg = 2
  CapActive = 1
  CapComplete = 1
  CapOp = 2
  Protocol = "asis"
  TermResponds = TRUE
  SerialMod = 8
  Identity = TRUE
  TermReads = TRUE
  TermCloses = TRUE
INVARIANTS NoPanic OwnResponse ResultsSane WrittenOnce OwnTimeout SerialsConsecutive RepliesInOrder NoDuplicateReply

CHECK_DEADLOCK FALSE
