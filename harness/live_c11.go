package main

// C11 driver: connects, first messages (joins), duplicate-key connects, disconnects, immediate
// reconnects and concurrent SendActiveMessage calls over a small set of keys.

import (
	"fmt"
	"github.com/cuteLittleDevil/go-jt808/service"
	"math/rand"
	"net"
	"strings"
	"sync"
	"sync/atomic"
	"time"

	"github.com/cuteLittleDevil/go-jt808/shared/consts"
)

var otherConns []net.Conn

func init() {
	// live-c11 <keys> <actions per worker> <trace>
	cmds["live-c11"] = func(a []string) {
		nkeys, nact := atoi(a[0]), atoi(a[1])
		// mode "keyfunc": the server runs with WithKeyFunc - the key is the fifth byte of the phone as a number without leading
		// zeros, so that one terminal's key is the empty string
		keyOf := func(ph []byte) string { return string(asciiDigits(ph)) }
		opts := liveOpts{traceTo: a[2]}
		if len(a) > 3 && a[3] == "keyfunc" {
			keyOf = func(ph []byte) string { return strings.TrimLeft(fmt.Sprintf("%02x", ph[4]), "0") }
			opts.keyFunc = func(m *service.Message) (string, bool) {
				d := m.JTMessage.Header.TerminalPhoneNo // decimal digits, leading zeros stripped
				for len(d) < 12 {
					d = "0" + d
				}
				// phones ending in 99 have no key at all: such a connection is served but never registered; phones ending in 98
				// are registered by their authentication only (whatever comes before it is served, not registered)
				if d[10:12] == "98" && m.JTMessage.Header.ID != 0x0102 {
					return "", false
				}
				return strings.TrimLeft(d[8:10], "0"), d[10:12] != "99"
			}
		}
		// another server in the same process (its own port, its own terminals, all of the keys used below online on it, set up
		// before this run's hooks are installed): two servers are two registries
		if opts.keyFunc == nil {
			service.VerifSetHook(nil)
			otherAddr := freePort()
			other := service.New(service.WithHostPorts(otherAddr))
			go other.Run()
			r0 := newRand(1111)
			for i := 0; i < nkeys; i++ {
				ph := []byte{0x01, 0x36, 0x00, 0x00, byte(i/10%10<<4 | i%10), byte(r0.Intn(10)<<4 | r0.Intn(10))}
				if i == 0 {
					ph = make([]byte, 6)
				}
				var c net.Conn
				var err error
				for k := 0; k < 200; k++ {
					if c, err = net.DialTimeout("tcp", otherAddr, 100*time.Millisecond); err == nil {
						break
					}
					time.Sleep(10 * time.Millisecond)
				}
				if err != nil {
					die("second server:", err)
				}
				c.Write(buildFrame(hdrSpec{id: 0x0002, serial: 1, phone: ph}))
				c.SetReadDeadline(time.Now().Add(3 * time.Second))
				if _, err := c.Read(make([]byte, 64)); err != nil {
					die("second server did not answer:", err)
				}
				otherConns = append(otherConns, c) // stay online on the other server for the whole run
			}
		}
		l := startLive(opts)
		// an application that sends a command from inside its join callback (say, a parameter query to the terminal that has just
		// arrived, or - here - to a key that is not online): the registry answers it like any other call, at once
		var joins atomic.Int64
		l.onJoin = func(c int, key string, err error) {
			if err != nil || joins.Add(1)%5 != 0 {
				return
			}
			t0 := time.Now()
			m := l.g.SendActiveMessage(service.NewActiveMessage("13699990000", consts.P8104QueryTerminalParams, nil, 300*time.Millisecond))
			ms := time.Since(t0).Milliseconds()
			kind := "nil"
			if m != nil {
				kind = errKind(m.ExtensionFields.Err)
			}
			l.rec.log(c, "R", "assert", "ok", kind == "notexist" && ms < 400, "what", "CommandFromInsideTheJoinCallbackNotAnsweredAtOnce", "kind", kind, "ms", ms)
		}
		r := newRand(1111)
		phones := make([][]byte, nkeys)
		for i := range phones {
			phones[i] = []byte{0x01, 0x36, 0x00, 0x00, byte(i/10%10<<4 | i%10), byte(r.Intn(10)<<4 | r.Intn(10))}
		}
		if opts.keyFunc == nil {
			phones[0] = make([]byte, 6)                                    // the all-zero phone: its key is "000000000000"
			phones[nkeys-1] = []byte{0, 0, 0, 0, 0x07, phones[nkeys-1][5]} // leading zeros: the key is the number without them
		}
		var kid atomic.Int64
		var wg sync.WaitGroup
		stop := make(chan struct{})
		// callers: commands to random keys, online or not
		for w := 0; w < 4; w++ {
			wg.Add(1)
			go func(seed int64) {
				defer wg.Done()
				rr := rand.New(rand.NewSource(seed))
				for {
					select {
					case <-stop:
						return
					default:
					}
					key := keyOf(phones[rr.Intn(nkeys)])
					if opts.keyFunc != nil && rr.Intn(5) == 0 {
						key = string(asciiDigits(phones[rr.Intn(nkeys)])) // nobody's key here - though it is the phone number of a terminal
					}
					l.sendActive(-1, int(kid.Add(1)), key, consts.P8104QueryTerminalParams, nil, 60*time.Millisecond)
					time.Sleep(time.Duration(rr.Intn(1500)) * time.Microsecond)
				}
			}(r.Int63())
		}
		// connection workers: each repeatedly takes a random key: connect, first message, maybe more, close
		var cw sync.WaitGroup
		for w := 0; w < 6; w++ {
			cw.Add(1)
			go func(seed int64) {
				defer cw.Done()
				rr := rand.New(rand.NewSource(seed))
				for i := 0; i < nact; i++ {
					ph := phones[rr.Intn(nkeys)]
					if opts.keyFunc != nil && rr.Intn(6) == 0 {
						ph = append(append([]byte{}, ph[:5]...), 0x99) // the key function declines this phone
					}
					t := l.dial(ph, 0)
					t.serial = rr.Intn(65000)
					if opts.keyFunc != nil && rr.Intn(4) == 0 {
						// registration and authentication in one write, then an immediate reset: the reply to the first (written before
						// the connection has a key) fails while the reader is about to join with the second
						t.close(false)
						ph98 := append(append([]byte{}, ph[:5]...), 0x98)
						t = l.dial(ph98, 0)
						reg := append(make([]byte, 25+8), []byte("A12345")...)
						t.send(append(t.frame(0x0100, reg), t.frame(0x0102, asciiDigits(ph98))...))
						if rr.Intn(2) == 0 {
							time.Sleep(time.Duration(rr.Intn(400)) * time.Microsecond)
						}
						t.close(true)
						continue
					}
					switch rr.Intn(9) {
					case 6: // a terminal-sent 0x8003 ahead of the joining heartbeat, both in one write, then an immediate reset:
						// the writer's first write fails while the reader is joining
						f := append(t.frame(0x8003, []byte{0, 1, 1, 0, 2}), t.frame(0x0002, nil)...)
						t.send(f)
						t.close(true)
					case 7: // registers, and registers again later on the same connection (an ordinary message the second time)
						reg := append(make([]byte, 25+8), []byte("A12345")...)
						t.send(t.frame(0x0100, reg))
						t.waitRecv(1, 20*time.Millisecond)
						t.send(t.frame(0x0100, reg))
						time.Sleep(time.Duration(rr.Intn(1500)) * time.Microsecond)
						t.send(t.frame(0x0002, nil))
					case 8: // registers twice back to back in one write
						reg := append(make([]byte, 25+8), []byte("B6")...)
						t.send(append(t.frame(0x0100, reg), t.frame(0x0100, reg)...))
					case 0: // never sends anything: no join, leaves with no key
					case 1: // first message is a sub-package part (joins without a read callback)
						t.send(buildFrame(hdrSpec{id: 0x0801, serial: t.nextSerial(), frag: 1, total: 2, no: 1, phone: ph, body: []byte{1, 2, 3}}))
					case 2: // unsupported first message does not join; the next one does
						t.send(t.frame(0x0f0f, nil))
						t.send(t.frame(0x0002, nil))
					default:
						t.send(t.frame(0x0002, nil))
					}
					// a refused duplicate is closed by the server; an accepted one answers
					t.waitRecv(1, time.Duration(5+rr.Intn(30))*time.Millisecond)
					if rr.Intn(3) == 0 {
						t.send(t.frame(0x0200, randBytes(rr, 28)))
					}
					time.Sleep(time.Duration(rr.Intn(4000)) * time.Microsecond)
					t.close(rr.Intn(3) == 0)
					if rr.Intn(2) == 0 { // immediate reconnect of the same key by the same worker
						t2 := l.dial(ph, 0)
						t2.send(t2.frame(0x0002, nil))
						t2.waitRecv(1, 20*time.Millisecond)
						t2.close(false)
					}
				}
			}(r.Int63())
		}
		cw.Wait()
		// reconnect storms: many connections present their first message at the same instant, two per key (one of each pair is
		// refused); every one of them gets the registry's answer to its own request
		for round := 0; round < 6; round++ {
			var ts []*term
			for k := 0; k < 8*nkeys; k++ {
				ts = append(ts, l.dial(phones[k%nkeys], 0))
			}
			time.Sleep(20 * time.Millisecond)
			fire := make(chan struct{})
			var sw sync.WaitGroup
			for _, t := range ts {
				sw.Add(1)
				go func(t *term) {
					defer sw.Done()
					f := t.frame(0x0002, nil)
					<-fire
					t.send(f)
					t.waitRecv(1, 60*time.Millisecond)
				}(t)
			}
			close(fire)
			sw.Wait()
			for i, t := range ts {
				t.close(i%5 == 0)
			}
			time.Sleep(60 * time.Millisecond)
		}
		close(stop)
		wg.Wait()
		time.Sleep(300 * time.Millisecond) // teardowns finish: every key must be free again
		// a backlogged key must not delay anybody else: one terminal's writer is held in its write callback, more
		// commands than its queue holds are sent to it, and meanwhile a command for an offline key must still be
		// answered not-exist at once
		{
			ph := []byte{0x01, 0x36, 0x99, 0x99, 0x99, 0x01}
			t := l.dial(ph, 0)
			release := make(chan struct{})
			var once atomic.Bool
			hold := func(c int) {
				if c == t.idx && !once.Swap(true) {
					select {
					case <-release:
					case <-time.After(1500 * time.Millisecond):
					}
				}
			}
			l.writeHold.Store(&hold)
			t.send(t.frame(0x0002, nil)) // joins; the reply's write callback parks the writer
			time.Sleep(50 * time.Millisecond)
			key := keyOf(ph)
			var bw sync.WaitGroup
			for i := 0; i < 6; i++ {
				bw.Add(1)
				go func() {
					defer bw.Done()
					l.sendActive(t.idx, int(kid.Add(1)), key, consts.P8104QueryTerminalParams, nil, 1200*time.Millisecond)
				}()
				time.Sleep(5 * time.Millisecond)
			}
			time.Sleep(30 * time.Millisecond)
			for i := 0; i < 3; i++ {
				l.sendActive(-1, int(kid.Add(1)), "13699999977", consts.P8104QueryTerminalParams, nil, 1200*time.Millisecond)
			}
			close(release)
			l.writeHold.Store(nil)
			bw.Wait()
			t.close(false)
			time.Sleep(100 * time.Millisecond)
		}
		// registration and authentication in one write (one read at the server): the connection is registered by its authentication
		// although the message in front of it was declined, and a command for its key reaches it
		if opts.keyFunc != nil {
			for round := 0; round < 3; round++ {
				ph := []byte{0x01, 0x36, 0x00, 0x00, 0x77, 0x98}
				t := l.dial(ph, 0)
				reg := append(make([]byte, 25+8), []byte("A12345")...)
				if round == 1 {
					t.send(append(t.frame(0x0002, nil), append(t.frame(0x0100, reg), t.frame(0x0102, asciiDigits(ph))...)...))
				} else {
					t.send(append(t.frame(0x0100, reg), t.frame(0x0102, asciiDigits(ph))...))
				}
				t.waitRecv(2, 3*time.Second)
				for len(t.recvCh) > 0 {
					<-t.recvCh
				}
				resCh := make(chan cmdResult, 1)
				k := int(kid.Add(1))
				go func() { resCh <- l.sendActive(t.idx, k, keyOf(ph), consts.P8104QueryTerminalParams, nil, time.Second) }()
				dl := time.After(1500 * time.Millisecond)
			answer:
				for {
					select {
					case fr := <-t.recvCh:
						if dv, _ := decodeView(fr); dv.Ok && dv.ID == 0x8104 {
							t.send(t.frame(0x0104, []byte{byte(dv.Serial >> 8), byte(dv.Serial), 0}))
							break answer
						}
					case <-dl:
						break answer
					}
				}
				res := <-resCh
				l.rec.log(t.idx, "D", "assert", "ok", res.Kind == "resp", "what", "RegisteredByAMessageInTheMiddleOfARead", "kind", res.Kind)
				t.close(false)
				l.waitLeft(t.idx, 2*time.Second)
			}
		}
		// every key can be taken by a new connection
		for i, ph := range phones {
			t := l.dial(ph, 0)
			t.send(t.frame(0x0002, nil))
			ok := t.waitRecv(1, 3*time.Second)
			l.rec.log(t.idx, "D", "rejoin", "key", i, "ok", ok)
			t.close(false)
		}
		time.Sleep(200 * time.Millisecond)
		l.dump(a[2])
	}
}
