"""C15 Attachment upload: files are reassembled byte-exactly (DESIGN.md section 5, C15)."""
import json
import vlib
from checks import attach_common as ac

LEVEL = "model_checking"


def check(ctx):
    thorough = ctx.tier == "thorough"
    ctx.build()
    cfgs = [dict(D="JS", NFiles=1, MaxChunk=2, MaxSteps=7, Ver=0),
            dict(D="HLJ", NFiles=2, MaxChunk=3, MaxSteps=6, Ver=1)]
    if thorough:
        cfgs = [dict(D="JS", NFiles=1, MaxChunk=3, MaxSteps=9, MaxDup=2, Ver=0),
                dict(D="HLJ", NFiles=2, MaxChunk=3, MaxSteps=8, Ver=1),
                dict(D="GD", NFiles=2, MaxChunk=4, MaxSteps=8, Ver=0),
                dict(D="HN", NFiles=1, MaxChunk=2, MaxSteps=8, Ver=1),
                dict(D="SC", NFiles=2, MaxChunk=3, MaxSteps=7, Ver=0)]
    ac.mc_attach(ctx, cfgs)
    ac.mc_attach_seg(ctx, [("HLJ", 0)] if not thorough else [("HLJ", 0), ("JS", 1), ("GD", 0), ("HN", 1), ("SC", 0)])
    ac.trace_attach(ctx, 1500 if thorough else 150)
    ac.big_uploads(ctx)
    stored_files(ctx)
    ctx.cov["rule"] = ("MC_Attach: every behaviour of a terminal announcing NFiles files and sending 0x1211, any disjoint split into "
                       "chunks <= MaxChunk in any order with exact resends, interleaved files, early/late 0x1212, up to MaxSteps units; "
                       "each terminal behaviour is a script replayed under 6 segmentations. MC_AttachSeg: all (i<j) cut pairs of a fixed "
                       "two-file script. Distinct = distinct scripts / cut pairs / recorded sessions.")
    ctx.cov["exhaustive"] = True
    ctx.assumptions += ["chunks are pieces of the announced file (offset+length <= size), pairwise disjoint or exact resends",
                        "in-memory net.Conn with scripted Read sizes stands for TCP segmentation (attachment accepts net.Conn)",
                        "file sizes below 2^31 (TLC integers)"]


def stored_files(ctx):
    """the real server with its default file handler: what ends up on disk for every completed upload (overlapping sessions, the
    same name from two terminals, an all-zero phone, a second shorter upload under the same name, many sessions ending at once)
    is byte for byte what that terminal uploaded"""
    import os, tempfile, shutil
    work = tempfile.mkdtemp(prefix="verif_c15_stored_")
    ov = os.path.join(ctx.scratch, "stored.ndjson")
    os.makedirs(os.path.join(work, "up1", "up2", "cwd"))
    r = ctx.vh(["live-attach-overlap", os.path.join(work, "up1", "up2", "cwd"), ov], timeout=300, cwd=work)
    oev = vlib.read_nd(ov, quoted=False) if os.path.exists(ov) else []
    shutil.rmtree(work, ignore_errors=True)
    if r.returncode != 0:
        from checks import live_common as lc
        lc.crash_check(ctx, r.returncode, r.stderr, "live-attach-overlap")
    judged = [e for e in oev if e.get("uploaded")]
    if len(judged) < 15 and not ctx.viol:
        raise vlib.ToolFailure("live-attach-overlap judged only %d uploads" % len(judged))
    for e in judged:
        if not e["stored"]:
            nm = bytes(e["name"]).decode("latin1")
            ctx.violation("stored-file-differs-from-the-upload name=%s" % nm,
                          "default file handler: %s of terminal %s holds %d bytes that are not the uploaded content" % (nm, bytes(e["phone"]).decode("latin1"), e["len"]),
                          {"kind": "live-attach-overlap", "event": e})
    ctx.note_impl("completed-uploads-compared-with-the-stored-file", len(judged))


def replay(ctx, path):
    ctx.build()
    r = json.load(open(path))["replay"]
    if r.get("kind") == "live-attach-overlap":
        stored_files(ctx); return
    if str(r.get("kind", "")).startswith("large-upload"):      # the large sessions are cheap: all of them are run again
        ac.big_uploads(ctx); return
    ac.replay_session(ctx, r)
