INIT Init
NEXT Next
CONSTANTS
  MaxSize = 8
INVARIANTS Exact CompleteIffNone Emit
CHECK_DEADLOCK FALSE
