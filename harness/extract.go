package main

// Adapter for spec/Extract.tla (C04, C05, C14): the connection's private frame extractor, reached
// through the verif-tagged accessor service.VerifNewExtractor (Feed = what reader() does per Read).

import (
	"bytes"
	"fmt"
	"math/rand"
	"sort"
	"time"

	"github.com/cuteLittleDevil/go-jt808/service"
)

type XMsg struct {
	Kind   string `json:"kind"`
	ID     int    `json:"id"`
	Serial int    `json:"serial"`
	Total  int    `json:"total"`
	No     int    `json:"no"`
	Body   B      `json:"body"`
	Raw    B      `json:"raw,omitempty"`
}

type XReq struct {
	ID   int `json:"id"`
	Body B   `json:"body"`
}

type XStep struct {
	Op    string `json:"op"`
	Bytes B      `json:"bytes"`
	D     int    `json:"d"`
	Out   []XMsg `json:"out"`
	Rereq []XReq `json:"rereq"`
	Err   bool   `json:"err"`
	Panic string `json:"panic,omitempty"`
	Sess  int    `json:"sess"`
	Hist  int    `json:"hist"`
}

type XScript struct {
	Ver   int     `json:"ver"`
	Steps []XStep `json:"steps"`
}

// feedX feeds one chunk (copied into a fresh exact-capacity slice: logic only, aliasing is C09's
// subject) and projects the result onto Extract!Feed's output.
func feedX(e *service.VerifExtractor, chunk []byte) XStep {
	st := XStep{Op: "feed", Bytes: append(B{}, chunk...), Out: []XMsg{}, Rereq: []XReq{}}
	var (
		msgs []*service.Message
		err  error
	)
	st.Panic = protect(func() { msgs, err = e.Feed(exact(chunk)) })
	st.Err = err != nil
	for _, m := range msgs {
		h := m.JTMessage.Header
		if h.ID == 0x8003 {
			st.Rereq = append(st.Rereq, XReq{ID: 0x8003, Body: append(B{}, m.JTMessage.Body...)})
			continue
		}
		x := XMsg{Kind: "plain", ID: int(h.ID), Serial: int(h.SerialNumber), Total: int(h.SubPackageSum), No: int(h.SubPackageNo),
			Body: append(B{}, m.JTMessage.Body...), Raw: append(B{}, m.ExtensionFields.TerminalData...)}
		if h.SubPackageSum > 0 {
			x.Kind = "part"
		}
		if m.ExtensionFields.SubcontractComplete {
			x.Kind = "complete"
			x.Raw = nil
		}
		st.Out = append(st.Out, x)
	}
	st.Hist = e.HistoryLen()
	sort.Slice(st.Rereq, func(i, j int) bool { return bytes.Compare(st.Rereq[i].Body, st.Rereq[j].Body) < 0 })
	return st
}

func xmsgEq(a, b XMsg, withRaw bool) bool {
	if a.Kind != b.Kind || a.ID != b.ID || a.Serial != b.Serial || a.Total != b.Total || a.No != b.No {
		return false
	}
	if a.Kind == "part" { // the last part shares its JTMessage with the completed message: body not judged
		return true
	}
	return bytes.Equal(a.Body, b.Body)
}

func cmpStep(spec, got XStep) (string, string) {
	if got.Panic != "" {
		return "extractor-panic", got.Panic
	}
	if got.Err != spec.Err {
		return fmt.Sprintf("error-differs spec=%v impl=%v", spec.Err, got.Err), ""
	}
	if len(got.Out) != len(spec.Out) {
		return fmt.Sprintf("message-count-differs spec=%d impl=%d", len(spec.Out), len(got.Out)), fmt.Sprintf("spec %+v impl %+v", kinds(spec.Out), kinds(got.Out))
	}
	for i := range got.Out {
		if !xmsgEq(spec.Out[i], got.Out[i], false) {
			return fmt.Sprintf("message-differs kind=%s/%s", spec.Out[i].Kind, got.Out[i].Kind),
				fmt.Sprintf("msg %d: spec %+v impl %+v", i, short(spec.Out[i]), short(got.Out[i]))
		}
	}
	a, b := reqBodies(spec.Rereq), reqBodies(got.Rereq)
	if fmt.Sprint(a) != fmt.Sprint(b) {
		return fmt.Sprintf("re-request-differs spec=%d impl=%d", len(a), len(b)), fmt.Sprintf("spec %v impl %v", a, b)
	}
	return "", ""
}

func kinds(ms []XMsg) (k []string) {
	for _, m := range ms {
		k = append(k, fmt.Sprintf("%s:%04x#%d", m.Kind, m.ID, m.No))
	}
	return
}
func short(m XMsg) string {
	b := m.Body
	if len(b) > 24 {
		b = b[:24]
	}
	return fmt.Sprintf("{%s id=%04x ser=%d %d/%d body(%d)=%x}", m.Kind, m.ID, m.Serial, m.No, m.Total, len(m.Body), []byte(b))
}
func reqBodies(rs []XReq) (out []string) {
	for _, r := range rs {
		out = append(out, fmt.Sprintf("%x", []byte(r.Body)))
	}
	sort.Strings(out)
	return
}

func init() {
	// S->I: MC_SubPkg scripts replayed on the real extractor (Age stands for Tick)
	cmds["extract-replay"] = func(a []string) {
		out := newND(a[1])
		defer out.close()
		n := 0
		classes := map[string]int{}
		var samples []any
		err := readND(a[0], func(i int, raw []byte) error {
			var s XScript
			if err := jsonUnmarshal(raw, &s); err != nil {
				return err
			}
			n++
			e := service.VerifNewExtractor()
			cls := ""
			for k, st := range s.Steps {
				if st.Op == "tick" {
					e.Age(time.Duration(st.D) * time.Millisecond)
					cls += "t"
					continue
				}
				cls += "f"
				got := feedX(e, st.Bytes)
				if sig, det := cmpStep(st, got); sig != "" {
					out.put(mismatch{sig, fmt.Sprintf("step %d: %s", k, det), s})
					break
				}
			}
			classes[cls]++
			if len(samples) < 2 && len(s.Steps) > 4 {
				samples = append(samples, s)
			}
			return nil
		})
		if err != nil {
			die(err)
		}
		out.put(summary{Summary: true, Cases: n, Distinct: n, Classes: classes, Samples: samples})
	}

	// S->I: MC_Stream frames: every (i<j) pair of cut positions (reads <= 1023 bytes)
	cmds["stream-replay"] = func(a []string) {
		out := newND(a[1])
		defer out.close()
		runs := 0
		maxSpan := 1023
		err := readND(a[0], func(i int, raw []byte) error {
			var c struct {
				Frames []B    `json:"frames"`
				Expect []XMsg `json:"expect"` // what the whole stream yields (frames and completed messages, in order)
				Counts []int  `json:"counts"` // counts[k]: outputs due once k whole frames have arrived
			}
			if err := jsonUnmarshal(raw, &c); err != nil {
				return err
			}
			var all []byte
			var ends []int
			for _, f := range c.Frames {
				all = append(all, f...)
				ends = append(ends, len(all))
			}
			whole := func(pos int) int {
				k := 0
				for _, e := range ends {
					if e <= pos {
						k++
					}
				}
				return k
			}
			// feedTo feeds all[from:to] in reads of at most 1023 bytes
			try := func(cuts []int) bool {
				runs++
				e := service.VerifNewExtractor()
				pos, got := 0, 0
				for _, cut := range append(cuts, len(all)) {
					for pos < cut {
						n := cut - pos
						if n > maxSpan {
							n = maxSpan
						}
						st := feedX(e, all[pos:pos+n])
						pos += n
						bad := ""
						if st.Panic != "" || st.Err {
							bad = "error-or-panic " + st.Panic
						}
						for _, m := range st.Out {
							if c.Expect == nil { // plain frames only
								if got >= len(c2frames(c.Frames)) || !bytes.Equal(m.Raw, c.Frames[got]) {
									bad = "wrong-frame-delivered"
								}
							} else if got >= len(c.Expect) || m.Kind != c.Expect[got].Kind || !bytes.Equal(m.Raw, c.Expect[got].Raw) ||
								(m.Kind != "part" && !bytes.Equal(m.Body, c.Expect[got].Body)) {
								bad = "wrong-message-delivered kind=" + m.Kind
							}
							got++
						}
						due := whole(pos)
						if c.Expect != nil {
							due = c.Counts[whole(pos)]
						}
						if bad == "" && got != due {
							bad = fmt.Sprintf("delivered-%d-messages-expected-%d", got, due)
						}
						if bad == "" && st.Hist != pos-endBefore(ends, pos) {
							bad = "buffer-length-differs"
						}
						if bad != "" {
							out.put(mismatch{"segmentation-dependent " + bad, fmt.Sprintf("cuts=%v at pos %d", cuts, pos), map[string]any{"frames": c.Frames, "expect": c.Expect, "counts": c.Counts, "cuts": cuts}})
							return false
						}
					}
				}
				return true
			}
			step := 1
			if len(all) > 400 {
				step = 0 // long streams: cuts around frame boundaries and escape pairs only
			}
			var positions []int
			if step == 1 {
				for p := 0; p <= len(all); p++ {
					positions = append(positions, p)
				}
			} else {
				seen := map[int]bool{}
				for _, e := range append([]int{0}, ends...) {
					for d := -3; d <= 3; d++ {
						if p := e + d; p >= 0 && p <= len(all) && !seen[p] {
							seen[p] = true
							positions = append(positions, p)
						}
					}
				}
				for p := 1; p < len(all); p++ {
					if all[p-1] == 0x7d && !seen[p] && len(positions) < 400 {
						seen[p] = true
						positions = append(positions, p)
					}
				}
				for _, p := range []int{1, 2, 511, 1022, 1023, 1024, 2046} {
					if p <= len(all) && !seen[p] {
						seen[p] = true
						positions = append(positions, p)
					}
				}
				sort.Ints(positions)
			}
			for x, i := range positions {
				for _, j := range positions[x:] {
					if !try([]int{i, j}) {
						return nil
					}
				}
			}
			// byte by byte
			var bb []int
			for p := 1; p < len(all); p++ {
				bb = append(bb, p)
			}
			try(bb)
			return nil
		})
		if err != nil {
			die(err)
		}
		out.put(summary{Summary: true, Cases: runs, Distinct: runs})
	}
}

func c2frames(f []B) []B { return f }
func endBefore(ends []int, pos int) int {
	e := 0
	for _, x := range ends {
		if x <= pos {
			e = x
		}
	}
	return e
}

// ---------------------------------------------------------------- I->S: random driver

func partFrame(r *rand.Rand, id, ver int, phone []byte, serial, total, no int, body []byte) []byte {
	return buildFrame(hdrSpec{id: id, serial: serial, ver: ver, verbyte: 1, frag: 1, total: total, no: no, phone: phone, body: body})
}

func init() {
	cmds["extract-gen"] = func(a []string) {
		n := atoi(a[0])
		out := newND(a[1])
		defer out.close()
		r := newRand(505)
		for s := 0; s < n; s++ {
			ver := r.Intn(2)
			phone := randPhone(r, ver)
			serial := r.Intn(65536)
			if r.Intn(4) == 0 {
				serial = 65528 + r.Intn(7) // the terminal's serial wraps inside the session (inside a transfer)
			}
			next := func() int { serial = (serial + 1) % 65536; return serial }
			// build the frame sequence: 1-3 transfers over distinct ids + plain messages
			var frames [][]byte
			var ages []int // age applied BEFORE frame k (ms), 0 = none
			ids := []int{0x0801, 0x0704, 0x0200, 0x0104}
			r.Shuffle(len(ids), func(i, j int) { ids[i], ids[j] = ids[j], ids[i] })
			type pk struct {
				id, total, no int
				body          []byte
			}
			var queue [][]pk
			big := false
			for t := 0; t < 1+r.Intn(3); t++ {
				total := 1 + r.Intn(6)
				if r.Intn(12) == 0 {
					total = []int{40, 255, 256, 257, 300, 513}[r.Intn(6)]
				}
				if total > 255 {
					big = true // (re-requests are specified for totals up to 255: such a session has no idle periods)
				}
				var ps []pk
				for no := 1; no <= total; no++ {
					b := randBody(r, no+t)
					if len(b) == 0 {
						b = []byte{byte(no)}
					}
					if total > 20 && len(b) > 4 {
						b = b[:4]
					} else if len(b) > 48 && r.Intn(4) != 0 {
						b = b[:1+r.Intn(48)]
					}
					ps = append(ps, pk{ids[t], total, no, b})
				}
				rest := ps[1:]
				r.Shuffle(len(rest), func(i, j int) { rest[i], rest[j] = rest[j], rest[i] })
				// duplicates of 2..N, withheld packets (re-request scenarios)
				if len(rest) > 0 && r.Intn(3) == 0 {
					rest = append(rest, rest[r.Intn(len(rest))])
				}
				tq := append([]pk{ps[0]}, rest...)
				if total >= 2 && total <= 20 && r.Intn(5) == 0 {
					// a straggler: a packet of this transfer once more after its last packet (the transfer is complete by then; what
					// comes late belongs to no transfer and disturbs no other)
					tq = append(tq, ps[1+r.Intn(total-1)])
				}
				queue = append(queue, tq)
			}
			// interleave
			for len(queue) > 0 {
				k := r.Intn(len(queue))
				p := queue[k][0]
				queue[k] = queue[k][1:]
				if len(queue[k]) == 0 {
					queue = append(queue[:k], queue[k+1:]...)
				}
				age := 0
				switch r.Intn(12) {
				case 0:
					age = []int{4800, 5200, 6000}[r.Intn(3)]
				case 1:
					age = []int{29000, 59800, 60200}[r.Intn(3)]
				}
				if big {
					age = 0
				}
				frames = append(frames, partFrame(r, p.id, ver, phone, next(), p.total, p.no, p.body))
				ages = append(ages, age)
				if r.Intn(5) == 0 {
					frames = append(frames, buildFrame(hdrSpec{id: 0x0002, serial: next(), ver: ver, verbyte: 1, phone: phone}))
					ages = append(ages, 0)
				}
				if r.Intn(8) == 0 { // an unfragmented message with the id of the open transfer: a message of its own, the transfer goes on
					frames = append(frames, buildFrame(hdrSpec{id: p.id, serial: next(), ver: ver, verbyte: 1, phone: phone, body: randBody(r, len(frames))}))
					ages = append(ages, 0)
				}
				if r.Intn(10) == 0 { // impossible number
					no := []int{0, p.total + 1, p.total + 7}[r.Intn(3)]
					frames = append(frames, partFrame(r, p.id, ver, phone, next(), p.total, no, []byte{9, 9}))
					ages = append(ages, 0)
				}
			}
			// every third session: repeated re-request rounds with partial resupply (one transfer, total 5..9)
			if s%3 == 1 {
				frames, ages = nil, nil
				total := 5 + r.Intn(5)
				if s%9 == 1 {
					total = []int{129, 130, 200, 255}[r.Intn(4)] // re-requests that list 128 and more package numbers
				}
				id := ids[0]
				var order []int
				for no := 2; no <= total; no++ {
					order = append(order, no)
				}
				r.Shuffle(len(order), func(i, j int) { order[i], order[j] = order[j], order[i] })
				frames = append(frames, partFrame(r, id, ver, phone, next(), total, 1, []byte{1}))
				ages = append(ages, 0)
				for len(order) > 0 {
					k := 1 + r.Intn(3)
					if total > 100 && len(order) < total-2 {
						k = 60 + r.Intn(60) // long transfers are resupplied in large pieces after the first round
					}
					if k > len(order) {
						k = len(order)
					}
					for i, no := range order[:k] {
						age := 0
						if i == 0 {
							age = []int{5200, 5200, 4800, 6000}[r.Intn(4)]
						}
						frames = append(frames, partFrame(r, id, ver, phone, next(), total, no, []byte{byte(no), 0x7e}))
						ages = append(ages, age)
					}
					order = order[k:]
					if r.Intn(2) == 0 {
						frames = append(frames, buildFrame(hdrSpec{id: 0x0002, serial: next(), ver: ver, verbyte: 1, phone: phone}))
						ages = append(ages, 5200)
					}
				}
			}
			// every ninth session: several transfers go stale together - all of them are past the 60 s limit at the same read, all
			// of them are discarded, and their late packets complete nothing
			if s%9 == 4 {
				frames, ages = nil, nil
				nt := 2 + r.Intn(3)
				for t := 0; t < nt; t++ {
					frames = append(frames, partFrame(r, ids[t], ver, phone, next(), 3, 1, []byte{byte(t), 1}))
					ages = append(ages, []int{0, 0, 300}[r.Intn(3)])
					if r.Intn(2) == 0 {
						frames = append(frames, partFrame(r, ids[t], ver, phone, next(), 3, 2, []byte{byte(t), 2}))
						ages = append(ages, 0)
					}
				}
				frames = append(frames, buildFrame(hdrSpec{id: 0x0002, serial: next(), ver: ver, verbyte: 1, phone: phone}))
				ages = append(ages, []int{60200, 61000, 59000}[r.Intn(3)])
				for t := 0; t < nt; t++ {
					for no := 2; no <= 3; no++ {
						frames = append(frames, partFrame(r, ids[t], ver, phone, next(), 3, no, []byte{byte(t), byte(no)}))
						ages = append(ages, []int{0, 0, 1500}[r.Intn(3)])
					}
				}
				frames = append(frames, buildFrame(hdrSpec{id: 0x0002, serial: next(), ver: ver, verbyte: 1, phone: phone}))
				ages = append(ages, 5200)
			}
			// feed: frame-aligned with ages, or re-segmented without ages
			e := service.VerifNewExtractor()
			out.put(XStep{Op: "reset", Sess: s, Out: []XMsg{}, Rereq: []XReq{}, Bytes: B{}})
			if r.Intn(2) == 0 || s%3 == 1 || s%9 == 4 {
				for k, f := range frames {
					if ages[k] > 0 {
						e.Age(time.Duration(ages[k]) * time.Millisecond)
						out.put(XStep{Op: "tick", D: ages[k], Sess: s, Out: []XMsg{}, Rereq: []XReq{}, Bytes: B{}})
					}
					st := feedX(e, f)
					st.Sess = s
					out.put(st)
				}
			} else {
				var all []byte
				for _, f := range frames {
					all = append(all, f...)
				}
				for len(all) > 0 {
					m := 1 + r.Intn(1023)
					if r.Intn(3) == 0 {
						m = 1 + r.Intn(30)
					}
					if m > len(all) {
						m = len(all)
					}
					st := feedX(e, all[:m])
					st.Sess = s
					out.put(st)
					all = all[m:]
				}
			}
		}
	}
}

func init() {
	// re-run a recorded extractor session (replay files): same feeds and ages, fresh observations
	cmds["extract-rerun"] = func(a []string) {
		out := newND(a[1])
		defer out.close()
		e := service.VerifNewExtractor()
		out.put(XStep{Op: "reset", Out: []XMsg{}, Rereq: []XReq{}, Bytes: B{}})
		if err := readND(a[0], func(i int, raw []byte) error {
			var st XStep
			if err := jsonUnmarshal(raw, &st); err != nil {
				return err
			}
			switch st.Op {
			case "tick":
				e.Age(time.Duration(st.D) * time.Millisecond)
				out.put(XStep{Op: "tick", D: st.D, Out: []XMsg{}, Rereq: []XReq{}, Bytes: B{}})
			case "feed":
				out.put(feedX(e, st.Bytes))
			}
			return nil
		}); err != nil {
			die(err)
		}
	}
}

func init() {
	// extract-hostile <out>: transfers announcing totals that no re-request can list (256 and more, up to 65535), left idle for more
	// than 5 s and 60 s of logical time and then continued: whatever the extractor answers, it does not panic and keeps working
	cmds["extract-hostile"] = func(a []string) {
		out := newND(a[0])
		defer out.close()
		r := newRand(1015)
		phone := []byte{0x01, 0x33, 0x00, 0x00, 0x07, 0x07}
		for _, total := range []int{255, 256, 257, 300, 511, 512, 513, 1000, 32768, 65535} {
			for variant := 0; variant < 3; variant++ {
				e := service.VerifNewExtractor()
				serial := 0
				next := func() int { serial++; return serial }
				pn := ""
				step := func(f []byte) {
					if pn == "" {
						st := feedX(e, f)
						pn = st.Panic
					}
				}
				step(partFrame(r, 0x0801, 0, phone, next(), total, 1, []byte{1, 2, 3}))
				if variant > 0 {
					step(partFrame(r, 0x0801, 0, phone, next(), total, total, []byte{4}))
				}
				e.Age(5200 * time.Millisecond)
				step(buildFrame(hdrSpec{id: 0x0002, serial: next(), phone: phone}))
				e.Age(5200 * time.Millisecond)
				step(partFrame(r, 0x0801, 0, phone, next(), total, 2, []byte{5}))
				if variant == 2 {
					e.Age(61 * time.Second)
					step(buildFrame(hdrSpec{id: 0x0002, serial: next(), phone: phone}))
					step(partFrame(r, 0x0801, 0, phone, next(), total, 3, []byte{6}))
					e.Age(5200 * time.Millisecond)
					step(buildFrame(hdrSpec{id: 0x0002, serial: next(), phone: phone}))
				}
				// it still extracts an ordinary frame
				alive := false
				if pn == "" {
					st := feedX(e, buildFrame(hdrSpec{id: 0x0200, serial: next(), phone: phone, body: make([]byte, 28)}))
					pn = st.Panic
					alive = len(st.Out) == 1 && st.Out[0].ID == 0x0200
				}
				out.put(map[string]any{"total": total, "variant": variant, "panic": pn, "alive": alive})
			}
		}
		// the largest transfer the header can announce, carried through to its end: 65535 one-byte packages
		{
			e := service.VerifNewExtractor()
			pn, got := "", -1
			for no := 1; no <= 65535 && pn == ""; no++ {
				body := []byte{byte(no)}
				if no == 1 {
					body = append(body, make([]byte, 35)...)
				}
				st := feedX(e, partFrame(r, 0x0801, 0, phone, no%65536, 65535, no, body))
				pn = st.Panic
				for _, o := range st.Out {
					if o.Kind == "complete" {
						got = len(o.Body)
					}
				}
			}
			out.put(map[string]any{"total": 65535, "variant": 9, "panic": pn, "alive": pn == "" && got == 65535+35, "complete_len": got})
		}
	}
}
