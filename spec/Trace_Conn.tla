------------------------------ MODULE Trace_Conn ------------------------------
(* One connection of the JT808 server, as a trace specification (C06, C12,    *)
(* parts of C09/C13).  The events of one connection, in the order of the      *)
(* recorder's global stamp (taken under one mutex, so causally ordered events *)
(* keep their order), come from four sources:                                 *)
(*   D  the harness terminal: send(bytes), recv(frame), close                 *)
(*   R  the reader goroutine, through TerminalEventer: readcb, unsupported    *)
(*   W  the writer goroutine, through hook points and TerminalEventer:        *)
(*      w_msg (dequeue from msgChan), reply_begin, writecb, cmd_written,      *)
(*      resp_match, w_complete                                                *)
(*   K  API callers: cmd_call, cmd_ret                                        *)
(* The specification keeps the queues the implementation keeps:               *)
(*   toReport  messages extracted from the stream, awaiting the read callback *)
(*   toWriter  msgChan: messages handed to the writer, FIFO                   *)
(*   cbQ/wireQ frames written, awaiting the write callback / the terminal     *)
(*   outstanding  the writer's record: platform serial -> caller              *)
(* and replays the writer's decision for every dequeued message (pend).       *)
(* Mismatches are collected in `bad` (first per connection).                  *)
EXTENDS Replies, Extract, Json, IOUtils, CSV

Trace == ndJsonDeserialize(IOEnv.VERIF_TRACE)
VARIABLES l, filt, rr, x, nmsg, hdr, toReport, toWriter, cur, pend, cbQ, wireQ, pser, issued, written, outstanding,
          matched, expectRet, returned, activeCb, stopping, diverged, bad
vars == <<l, filt, rr, x, nmsg, hdr, toReport, toWriter, cur, pend, cbQ, wireQ, pser, issued, written, outstanding,
          matched, expectRet, returned, activeCb, stopping, diverged, bad>>

None == [kind |-> "none"]
CallerGrace == 1000      \* SendActiveMessage gives up one second after the request's own time-out (milliseconds)
Fresh == /\ rr = {} /\ x = InitX /\ nmsg = 0 /\ hdr = None /\ toReport = <<>> /\ toWriter = <<>> /\ cur = None /\ pend = "none"
         /\ cbQ = <<>> /\ wireQ = <<>> /\ pser = 0 /\ issued = <<>> /\ written = <<>> /\ outstanding = <<>>
         /\ matched = <<>> /\ expectRet = <<>> /\ returned = {} /\ activeCb = {} /\ stopping = -1 /\ diverged = FALSE
Init == l = 1 /\ Fresh /\ bad = <<>> /\ filt = TRUE
E == Trace[l]
Flag(ok, what) == IF ok \/ diverged THEN bad ELSE Append(bad, [l |-> l, c |-> E.c, what |-> what])
Same == UNCHANGED <<filt, rr, x, nmsg, hdr, toReport, toWriter, cur, pend, cbQ, wireQ, pser, issued, written, outstanding,
                    matched, expectRet, returned, activeCb, stopping>>
Fail(what) == bad' = Flag(FALSE, what) /\ diverged' = TRUE /\ Same
Ok == bad' = bad /\ diverged' = diverged

\* what the reader does with an extracted message o (Extract!Msg + completions)
Expect(o) == IF o.id \notin Supported THEN "unsupported"
             ELSE IF o.kind = "part" /\ filt THEN "silent"          \* filtered until complete
             ELSE "readcb"
\* echoed serial of a response body (0001, 0104, 0805, 1205, 1206 all start with it)
Echo(o) == IF Len(o.body) >= 2 THEN BE16(o.body[1], o.body[2]) ELSE -1
RespParses(o) == CASE o.id = 1 -> Len(o.body) = 5
                   [] o.id = 4614 -> Len(o.body) = 3
                   [] o.id = 2053 -> Len(o.body) >= 5 /\ Len(o.body) = 5 + BE16(o.body[4], o.body[5]) * 4
                   [] OTHER -> Len(o.body) >= 3        \* 0104 / 1205: longer layouts, generated well-formed
\* the writer's decision for a dequeued message
Decide(o) == IF o.kind = "part" /\ filt THEN "none"
             ELSE IF o.kind # "part" /\ o.id \in ResponseIds /\ DOMAIN outstanding # {}     \* parts are never taken for responses
                  THEN (IF RespParses(o) /\ Echo(o) \in DOMAIN outstanding THEN "match" ELSE "none")
             \* 0x1003 (audio/video attributes) answers 0x9003 but echoes no serial: while any command is outstanding the
             \* implementation takes it as the response to one of them - whichever its map iteration yields - and writes no reply;
             \* with nothing outstanding it is an ordinary message and gets its general reply
             ELSE IF o.kind # "part" /\ o.id = 4099 /\ DOMAIN outstanding # {} THEN (IF Len(o.body) = 10 THEN "matchany" ELSE "none")
             ELSE IF o.id \in ReplyBearing THEN "reply" ELSE "none"     \* HasReply() of the type; the body may still be refused
AsM(o, n) == [n |-> n, id |-> o.id, ver |-> o.ver, phone |-> o.phone, digits |-> PhoneDigits(o.phone), serial |-> o.serial,
           body |-> o.body, enc |-> 0, kind |-> o.kind, total |-> o.total, no |-> o.no]

\* the server option WithHasSubcontract: TRUE (default) = parts of a sub-packaged message are silent until the message is complete;
\* FALSE = every part is reported, answered and passed to the write callback like a message of its own
Reset == /\ E.ev = "reset" /\ bad' = bad /\ filt' = (IF "filter" \in DOMAIN E THEN E.filter ELSE TRUE)
         /\ rr' = {} /\ x' = InitX /\ nmsg' = 0 /\ hdr' = None /\ toReport' = <<>> /\ toWriter' = <<>> /\ cur' = None /\ pend' = "none"
         /\ cbQ' = <<>> /\ wireQ' = <<>> /\ pser' = 0 /\ issued' = <<>> /\ written' = <<>> /\ outstanding' = <<>>
         /\ matched' = <<>> /\ expectRet' = <<>> /\ returned' = {} /\ activeCb' = {} /\ stopping' = -1 /\ diverged' = FALSE
Send == /\ E.ev = "send"
        /\ LET r  == Feed(x, E.bytes)
               \* deviation of the implementation, visible only with filt = FALSE: the completed message shares its frame object
               \* with the part that completed it, so that part is reported (and answered) with the whole body
               shared(i) == ~filt /\ r.out[i].kind = "part" /\ i < Len(r.out) /\ r.out[i + 1].kind = "complete"
               os == Mat([i \in 1..Len(r.out) |->
                            AsM(IF shared(i) THEN [r.out[i] EXCEPT !.body = r.out[i + 1].body] ELSE r.out[i], nmsg + i)])
               rp == SelectSeq(os, LAMBDA o : Expect(o) # "silent")
               tw == SelectSeq(os, LAMBDA o : o.id \in Supported)
           IN /\ x' = r.x /\ nmsg' = nmsg + Len(r.out)
              /\ toReport' = toReport \o rp
              /\ toWriter' = toWriter \o tw          \* msgChan order = stream order (parts included, unreported)
              /\ hdr' = IF hdr.kind = "none" /\ Len(tw) > 0 THEN tw[1] ELSE hdr
              /\ rr' = rr \cup {[serial |-> q.serial, body |-> q.body] : q \in r.rereq}   \* transfers idle for more than 5 s: re-requested
              /\ UNCHANGED <<filt, cur, pend, cbQ, wireQ, pser, issued, written, outstanding, matched, expectRet, returned, activeCb, stopping>>
              /\ Ok
\* reader callbacks: the next extracted message, with its own content; then it is handed to the writer
ReadCb == /\ E.ev \in {"readcb", "unsupported"}
          /\ IF toReport = <<>> THEN Fail("ReadCbUnexpected")
             ELSE LET o == Head(toReport) IN
                  IF ~(Expect(o) = E.ev /\ o.id = E.id /\ o.serial = E.serial /\ Mat(o.body) = Mat(E.body) /\ o.digits = E.digits)
                  THEN Fail("ReadCbMatch")
                  ELSE /\ toReport' = Tail(toReport) /\ Ok
                       /\ UNCHANGED <<filt, rr, x, nmsg, hdr, toWriter, cur, pend, cbQ, wireQ, pser, issued, written, outstanding, matched, expectRet, returned, activeCb, stopping>>
\* msgChan: everything supported goes to the writer in stream order (parts included)
\* (modelled at dequeue: the writer's w_msg names the message; it must be the next one of the stream)
WMsg == /\ E.ev = "w_msg"
        /\ IF pend # "none" THEN Fail("WriterSkipped_" \o pend)
           ELSE IF toWriter = <<>> THEN Fail("WMsgUnexpected")
                   ELSE LET o == Head(toWriter) IN
                        IF ~(o.id = E.id /\ o.serial = E.serial) THEN Fail("MsgChanOrder")
                        ELSE IF \E i \in 1..Len(toReport) : toReport[i].n = o.n THEN Fail("HandledBeforeReadCallback")
                        ELSE /\ toWriter' = Tail(toWriter) /\ cur' = o /\ pend' = Decide(o) /\ Ok
                             /\ UNCHANGED <<filt, rr, x, nmsg, hdr, toReport, cbQ, wireQ, pser, issued, written, outstanding, matched, expectRet, returned, activeCb, stopping>>
UnjFrame(id, ps) == << -1, id, ps >>
SameFrame(f, data) == IF Len(f) = 3 /\ f[1] = -1
                      THEN LET d == Decode(data) IN d.ok /\ d.id = f[2] /\ d.serial = f[3]
                      ELSE Mat(f) = Mat(data)
ReplyBegin == /\ E.ev = "reply_begin"
              /\ IF ~(pend = "reply" /\ cur.serial = E.serial) THEN Fail("ReplyUnexpected")
                 \* ~has: body refused (0x0102/2019 too short): logged, nothing written.  A body the handler cannot parse (0x0801 shorter
                 \* than its fixed part, 0x1212 whose name length does not fit) is still answered - with the reply id of its message and
                 \* the next platform serial; what the reply body says is not specified (UnjFrame)
                 ELSE LET fr == IF Judged(cur) THEN ReplyFrame(cur, pser) ELSE UnjFrame(IF cur.id = 2049 THEN 34816 ELSE 37394, pser)
                          has == IF Judged(cur) THEN ReplyFor(cur).has ELSE TRUE IN
                      /\ cbQ' = (IF has THEN Append(cbQ, fr) ELSE cbQ)
                      /\ wireQ' = (IF has THEN Append(wireQ, fr) ELSE wireQ)
                      /\ pser' = (IF has THEN (pser + 1) % 65536 ELSE pser)
                      /\ pend' = "none" /\ Ok
                      /\ UNCHANGED <<filt, rr, x, nmsg, hdr, toReport, toWriter, cur, issued, written, outstanding, matched, expectRet, returned, activeCb, stopping>>
WriteCb == /\ E.ev = "writecb"
           /\ IF E.active
              THEN (IF E.pseq \notin activeCb THEN Fail("ActiveCallbackUnexpected")
                    ELSE /\ activeCb' = activeCb \ {E.pseq} /\ Ok
                         /\ UNCHANGED <<filt, rr, x, nmsg, hdr, toReport, toWriter, cur, pend, cbQ, wireQ, pser, issued, written, outstanding, matched, expectRet, returned, stopping>>)
              ELSE (IF cbQ = <<>> THEN Fail("WriteCallbackUnexpected")
                    ELSE IF ~SameFrame(Head(cbQ), E.data) THEN Fail("WriteCallbackBytes")
                    ELSE /\ cbQ' = Tail(cbQ) /\ Ok
                         /\ UNCHANGED <<filt, rr, x, nmsg, hdr, toReport, toWriter, cur, pend, wireQ, pser, issued, written, outstanding, matched, expectRet, returned, activeCb, stopping>>)
Recv == /\ E.ev = "recv"
        /\ IF wireQ = <<>> THEN Fail("FrameUnexpected")
           ELSE IF ~SameFrame(Head(wireQ), E.bytes) THEN Fail("FrameBytes")
           ELSE /\ wireQ' = Tail(wireQ) /\ Ok
                /\ UNCHANGED <<filt, rr, x, nmsg, hdr, toReport, toWriter, cur, pend, cbQ, pser, issued, written, outstanding, matched, expectRet, returned, activeCb, stopping>>
\* logical time: the harness slept for E.ms milliseconds (only logged for deliberate stalls)
TickEv == /\ E.ev = "tick" /\ x' = Tick(x, E.ms) /\ Ok
          /\ UNCHANGED <<filt, rr, nmsg, hdr, toReport, toWriter, cur, pend, cbQ, wireQ, pser, issued, written, outstanding, matched, expectRet, returned, activeCb, stopping>>
\* the writer takes a re-request (0x8003) from its own queue: numbered and written like a reply, passed to the write callback
WReissue == /\ E.ev = "w_reissue"
            /\ IF pend # "none" THEN Fail("WriterSkipped_" \o pend)
               ELSE IF ~\E q \in rr : Mat(q.body) = Mat(E.body) THEN Fail("ReRequestUnexpected")
               ELSE LET q == CHOOSE q \in rr : Mat(q.body) = Mat(E.body)
                        fr == EncodeReply(hdr, 32771, pser, q.body) IN
                    /\ rr' = rr \ {q} /\ cbQ' = Append(cbQ, fr) /\ wireQ' = Append(wireQ, fr) /\ pser' = (pser + 1) % 65536 /\ Ok
                    /\ UNCHANGED <<filt, x, nmsg, hdr, toReport, toWriter, cur, pend, issued, written, outstanding, matched, expectRet, returned, activeCb, stopping>>
\* ---- platform commands (C12)
Ext2(fn, k, v) == [y \in DOMAIN fn \cup {k} |-> IF y = k THEN v ELSE fn[y]]
CmdCall == /\ E.ev = "cmd_call"
           /\ issued' = Ext2(issued, E.k, [cmd |-> E.cmd, body |-> E.body, tmo |-> E.tmo,
                                            slack |-> IF "slack" \in DOMAIN E THEN E.slack ELSE CallerGrace + 300]) /\ Ok
           /\ UNCHANGED <<filt, rr, x, nmsg, hdr, toReport, toWriter, cur, pend, cbQ, wireQ, pser, written, outstanding, matched, expectRet, returned, activeCb, stopping>>
CmdWritten == /\ E.ev = "cmd_written"
              /\ IF pend # "none" THEN Fail("WriterSkipped_" \o pend)
                 ELSE IF ~(E.k \in DOMAIN issued /\ E.k \notin DOMAIN written) THEN Fail("CommandWrittenTwiceOrUnknown")
                 ELSE IF E.seq # pser THEN Fail("CommandSerialNotFresh")
                 ELSE IF hdr.kind = "none" THEN Fail("CommandBeforeJoin")
                 ELSE /\ wireQ' = Append(wireQ, EncodeReply(hdr, issued[E.k].cmd, pser, issued[E.k].body))
                      /\ written' = Ext2(written, E.k, pser) /\ outstanding' = Ext2(outstanding, pser, E.k)
                      /\ pser' = (pser + 1) % 65536 /\ Ok
                      /\ UNCHANGED <<filt, rr, x, nmsg, hdr, toReport, toWriter, cur, pend, cbQ, issued, matched, expectRet, returned, activeCb, stopping>>
RespMatch == /\ E.ev = "resp_match"
             /\ IF ~((pend = "match" /\ Echo(cur) = E.seq) \/ (pend = "matchany" /\ E.seq \in DOMAIN outstanding))
                THEN Fail("ResponseMatchedToWrongCommand")
                ELSE /\ matched' = Ext2(matched, E.seq, IF pend = "matchany" THEN [cur EXCEPT !.kind = "any"] ELSE cur) /\ pend' = "none" /\ Ok
                     /\ UNCHANGED <<filt, rr, x, nmsg, hdr, toReport, toWriter, cur, cbQ, wireQ, pser, issued, written, outstanding, expectRet, returned, activeCb, stopping>>
WComplete == /\ E.ev = "w_complete"
             /\ IF pend # "none" THEN Fail("WriterSkipped_" \o pend)
                ELSE IF E.seq \notin DOMAIN outstanding
                     THEN Ok /\ Same          \* late completion for a request already answered: ignored
                ELSE IF E.kind = "resp" /\ E.seq \notin DOMAIN matched THEN Fail("CompletionWithoutResponse")
                ELSE /\ expectRet' = Ext2(expectRet, outstanding[E.seq],
                                          [kind |-> E.kind, seq |-> E.seq,
                                           echo |-> IF E.kind = "resp" /\ matched[E.seq].kind # "any" THEN Echo(matched[E.seq]) ELSE -1])
                     /\ outstanding' = [s \in DOMAIN outstanding \ {E.seq} |-> outstanding[s]]
                     /\ activeCb' = activeCb \cup {E.seq} /\ Ok
                     /\ UNCHANGED <<filt, rr, x, nmsg, hdr, toReport, toWriter, cur, pend, cbQ, wireQ, pser, issued, written, matched, returned, stopping>>
CmdRet == /\ E.ev = "cmd_ret"
          /\ IF E.k \in returned \/ E.k \notin DOMAIN issued THEN Fail("CallerReturnedTwice")
             ELSE IF E.k \notin DOMAIN expectRet
                  THEN (IF \/ (E.kind = "notexist" /\ E.k \notin DOMAIN written)
                           \/ (E.kind = "busy" /\ E.k \notin DOMAIN written)          \* the terminal's command queue was full
                           \/ (E.kind = "closed" /\ stopping >= 0)                    \* failed by the stopping writer
                           \* the caller's own deadline (time-out + 1 s): the writer did not complete the request in time,
                           \* e.g. it is still queued behind a writer that is stuck writing to a terminal that stopped reading
                           \* ... but not long after the writer stopped: the stopping writer answers what is outstanding or queued at once
                           \/ (E.kind = "timeout" /\ issued[E.k].tmo >= 0      \* (a caller without a time-out is never told "time-out")
                                /\ E.ms >= issued[E.k].tmo + CallerGrace - 20 /\ E.ms <= issued[E.k].tmo + CallerGrace + 500
                                /\ (stopping < 0 \/ E.tms - stopping <= 200)
                                \* ... and for a request that was written only when the harness may have parked the writer (slack >= grace):
                                \* an unhindered writer delivers the time-out itself, on time
                                /\ (E.k \notin DOMAIN written \/ issued[E.k].slack >= CallerGrace))
                        THEN /\ returned' = returned \cup {E.k} /\ Ok
                             /\ UNCHANGED <<filt, rr, x, nmsg, hdr, toReport, toWriter, cur, pend, cbQ, wireQ, pser, issued, written, outstanding, matched, expectRet, activeCb, stopping>>
                        ELSE Fail("ReturnWithoutCompletion"))
             ELSE LET r == expectRet[E.k] IN
                  IF r.kind # E.kind THEN Fail("ReturnKind")
                  ELSE IF E.kind = "resp" /\ r.echo # -1 /\ ~(E.echo = written[E.k] /\ r.echo = written[E.k]) THEN Fail("OwnResponse")
                  ELSE IF E.kind = "resp" /\ r.echo = -1 /\ E.respid # 4099 THEN Fail("OwnResponse")      \* only 0x1003 may be matched without an echo
                  ELSE IF E.kind = "timeout" /\ ~(issued[E.k].tmo >= 0 /\ E.ms >= issued[E.k].tmo - 20 /\ E.ms <= issued[E.k].tmo + issued[E.k].slack) THEN Fail("TimeoutTiming")
                  ELSE /\ returned' = returned \cup {E.k} /\ Ok
                       /\ UNCHANGED <<filt, rr, x, nmsg, hdr, toReport, toWriter, cur, pend, cbQ, wireQ, pser, issued, written, outstanding, matched, expectRet, activeCb, stopping>>
\* the writer saw stopChan closed: from now on it answers outstanding and queued commands with an error
WStop == /\ E.ev = "w_stop" /\ stopping' = E.tms /\ Ok       \* (stopping = -1: running; otherwise the recorder's time of the stop, ms)
         /\ UNCHANGED <<filt, rr, x, nmsg, hdr, toReport, toWriter, cur, pend, cbQ, wireQ, pser, issued, written, outstanding, matched, expectRet, returned, activeCb>>
\* C09: the harness kept every *Message it was handed and compares it, after later traffic and after the
\* connection closed, with the snapshot taken at delivery (body, raw frame, id, phone, serial, package numbers)
\* an observation the driver made at a point where the specification fixes the outcome (named by E.what), e.g. C04: the frames
\* whose closing delimiter has arrived are answered without waiting for the rest of the stream
Observed == /\ E.ev = "assert" /\ bad' = Flag(E.ok, E.what) /\ diverged' = diverged /\ Same
Recheck == /\ E.ev = "recheck" /\ bad' = Flag(E.same, "DeliveredMessageChanged_" \o E.field) /\ diverged' = diverged /\ Same
\* the harness waited for quiescence: nothing may be left anywhere
End == /\ E.ev = "end"
       /\ LET what == IF toReport # <<>> THEN "MessageNeverReported"
                      ELSE IF toWriter # <<>> THEN "MessageNeverDequeued"
                      ELSE IF pend # "none" THEN "WriterSkipped_" \o pend
                      ELSE IF cbQ # <<>> THEN "WriteCallbackMissing"
                      ELSE IF wireQ # <<>> THEN "FrameNeverArrived"
                      ELSE IF rr # {} THEN "ReRequestNeverSent"
                      ELSE IF DOMAIN issued # returned THEN "CallerNeverReturned"
                      ELSE "ok"
          IN bad' = Flag(what = "ok", what) /\ diverged' = (diverged \/ what # "ok") /\ Same
\* events the specification does not constrain here (registry, teardown, timers: Trace_Registry / C13)
Other == /\ E.ev \notin {"reset", "send", "readcb", "unsupported", "w_msg", "reply_begin", "writecb", "recv",
                         "cmd_call", "cmd_written", "resp_match", "w_complete", "cmd_ret", "end", "w_stop", "recheck", "tick", "w_reissue", "assert"}
         /\ Ok /\ Same

Step == Reset \/ TickEv \/ WReissue \/ Send \/ ReadCb \/ WMsg \/ ReplyBegin \/ WriteCb \/ Recv \/ CmdCall \/ CmdWritten \/ RespMatch \/ WComplete
        \/ CmdRet \/ End \/ WStop \/ Recheck \/ Observed \/ Other
Next == l <= Len(Trace) /\ l' = l + 1 /\ Step
Done == l = Len(Trace) + 1
Report == Done => CSVWrite("%1$s", <<ToJson([bad |-> bad, n |-> Len(Trace)])>>, IOEnv.VERIF_OUT)
=============================================================================
